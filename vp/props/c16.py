"""C16 -- Ringbuffer deletes only what it must, oldest first, with exact accounting (partial).

Decides: only grammar-matched tracked paths are deleted, the size accounting is paired with the actual
queue/record mutation, victims are chosen with [0] only and queues/records are mutated by their owners only,
limits are re-established after every addition (cooperative expire chain complete).
Not decided: that the deque insertion keeps time order (rotation arithmetic).
"""
from __future__ import annotations

import ast

from ..core import Rule, AnalysisError, norm
from .. import pyfront, pycalls, cfold, rx, pyutil
from . import rbroles

RB = "python/digital_rf/ringbuffer.py"
BASE = "DigitalRFRingbufferHandlerBase"
MIXINS = ("CountExpirer", "SizeExpirer", "TimeExpirer")
QUEUE_MUT = ("append", "appendleft", "rotate", "remove", "popleft", "pop", "insert", "clear", "extend", "extendleft", "reverse")


def _anc(m, n):
    p = m.parents.get(n)
    while p is not None:
        yield p
        p = m.parents.get(p)


def r1_only_tracked_paths_deleted(repo=None):
    r = Rule("C16.R1", "only tracked, grammar-matched data/metadata paths are ever deleted (effects + def-use + rx)")
    ro = rbroles.roles(repo)
    m = ro.m
    n_mut = 0
    # every mutator call site is judged in the context of each function it ends up in once private helpers are inlined; a site
    # inside a private helper is not judged on its own when the helper is inlined somewhere (its callers supply the path)
    verdicts = {}       # (line, col) -> [(context qualname, ok, text, call)]
    inlined_somewhere = set()
    views = {}
    for q, f in m.functions.items():
        if "<locals>" in q:
            continue
        v = m.flat(q, depth=4)
        views[q] = v
        inlined_somewhere |= set(v.inlined)
    for q, v in views.items():
        f = v.fn()
        muts = pycalls.mutator_calls(f)
        if not muts:
            continue
        env = pyutil.single_alias_env(f)
        recs = {n.targets[0].id for n in pyfront.walk_no_nested(f) if isinstance(n, ast.Assign) and isinstance(n.targets[0], ast.Name)
                and isinstance(n.value, ast.Call) and pyfront.call_name(n.value) == "self.records.pop"}

        def rec_path(e):
            e = pyutil.dealias(e, env) if isinstance(e, ast.Name) else e
            if isinstance(e, ast.Attribute) and e.attr == "path" and isinstance(e.value, ast.Name):
                base = pyutil.dealias(e.value, env)         # `rec = <the popped record>` handed back by a helper: a copy of the name
                return isinstance(base, ast.Name) and base.id in recs
            return False

        def rec_dir(e):
            e = pyutil.dealias(e, env) if isinstance(e, ast.Name) else e
            if isinstance(e, ast.Call) and pyfront.call_name(e) == "os.path.dirname" and e.args and rec_path(e.args[0]):
                return True
            if isinstance(e, ast.Name):
                for n in pyfront.walk_no_nested(f):
                    if isinstance(n, ast.Assign) and isinstance(n.value, ast.Call) and pyfront.call_name(n.value) in ("os.path.split", "os.path.dirname") \
                            and n.value.args and rec_path(n.value.args[0]):
                        t = n.targets[0]
                        if isinstance(t, ast.Tuple) and isinstance(t.elts[0], ast.Name) and t.elts[0].id == e.id:
                            return True
                        if isinstance(t, ast.Name) and t.id == e.id and pyfront.call_name(n.value) == "os.path.dirname":
                            return True
            return False
        for call, what in muts:
            arg = call.args[0] if call.args else None
            ok = (what == "os.remove" and arg is not None and rec_path(arg)) or (what == "os.rmdir" and arg is not None and rec_dir(arg))
            verdicts.setdefault((call.lineno, call.col_offset), []).append((q, ok, what, call))
    for pos, vs in sorted(verdicts.items()):
        n_mut += 1
        owner = None
        for q0, f0 in m.functions.items():
            if "<locals>" not in q0 and f0.lineno <= pos[0] <= (f0.end_lineno or f0.lineno):
                owner = q0
        judged = [x for x in vs if not (x[0] == owner and owner.split(".")[-1] in inlined_somewhere and len(vs) > 1)]
        bad = [x for x in judged if not x[1]]
        call = vs[0][3]
        site = "%s:%s %s `%s`" % (m.rel, pos[0], owner, norm(ast.unparse(call)))
        if not bad:
            r.ok(site, "acts on the path (or the emptied directory) of a record taken out of self.records, in every calling context (%s)" % (
                ", ".join(sorted({x[0] for x in judged}))))
        else:
            r.violation(m.rel, owner, norm(ast.unparse(call)), "the ringbuffer deletes/changes a path that is not taken from its "
                        "record table (a properties file, a tmp. file or a path outside the watched tree could be deleted) [context %s]" % bad[0][0],
                        line=pos[0])
    if n_mut < 3:
        raise AnalysisError("ringbuffer.py: %d mutator call sites found, 3 confirmed" % n_mut)
    # records are built only in _get_file_record, after a successful match that yielded a `secs` group
    fr = [c for c in ast.walk(m.tree) if isinstance(c, ast.Call) and (pyfront.call_name(c) or "").endswith("FileRecord")]
    builders = {m.qualname_of(c) for c in fr}
    if builders == {ro.q(ro.make_record)}:
        q = ro.q(ro.make_record)
        g = m.cfg(q)
        f = m.fn(q)
        ret = [n for n in g.nodes if n.kind == "return" and "FileRecord" in n.label]
        keyvars = [pyfront.kwarg(c, "key", 0) for c in fr]
        kv = keyvars[0].id if keyvars and isinstance(keyvars[0], ast.Name) else None
        secs_ok = any(isinstance(c, ast.Call) and isinstance(c.func, ast.Attribute) and c.func.attr == "group"
                      and c.args and pyfront.const(c.args[0]) == "secs" for c in ast.walk(f)) and any(
            isinstance(lp, ast.For) and norm(ast.unparse(lp.iter)) == "self.regexes" for lp in ast.walk(f))
        G = [n.id for n in g.nodes if n.ast is not None and not isinstance(n.ast, (ast.For, ast.Try, ast.If)) and any(
            isinstance(c, ast.Call) and isinstance(c.func, ast.Attribute) and c.func.attr == "group" and c.args
            and pyfront.const(c.args[0]) == "secs" for c in ast.walk(n.ast))]
        structural = bool(G) and bool(ret) and not any(x.id in g.reach([g.entry.id], avoid=G) for x in ret) and not any(
            x.id in g.reach([b_ for i in G for b_, lab in g.succ[i] if lab == "exc"], avoid=G) for x in ret)
        proved = False
        vw = m.flat(q, depth=4)
        cls_ = q.rsplit(".", 1)[0]
        hcalls = [(n, n.ast.targets[0].id, cls_ + "." + pyfront.call_name(n.ast.value)[5:]) for n in g.nodes
                  if isinstance(n.ast, ast.Assign) and len(n.ast.targets) == 1 and isinstance(n.ast.targets[0], ast.Name)
                  and isinstance(n.ast.value, ast.Call) and (pyfront.call_name(n.ast.value) or "").startswith("self._")
                  and cls_ + "." + pyfront.call_name(n.ast.value)[5:] in m.functions]
        if not (structural or all(pyutil.truth_guarded(g, x.id, kv) for x in ret)) and not vw.inlined and hcalls:
            # the match is made by a private helper that is not inlined (it returns from inside its loop): summary of the helper
            # ("a value other than None only after the `secs` group of a match was read") + path-sensitive pass over the caller
            forks = {n.id: var for n, var, hq in hcalls if _helper_matches_before_value(m, hq)}
            if forks:
                MS1 = mutation_states(g, set(), copies=True, exc_pre=True, forks=forks)
                proved = bool(ret) and all(MS1.get(x.id) and all(mut for env_, mut in MS1[x.id]) for x in ret)
                secs_ok = secs_ok or proved
            if not proved:
                raise AnalysisError("%s: whether a FileRecord is built only after a regex match that yielded `secs` is not decided (helpers %s)" % (
                    q, sorted(h for _, _, h in hcalls)))
        if not (proved or structural or all(pyutil.truth_guarded(g, x.id, kv) for x in ret)) and vw.inlined:
            # the match is made by a private helper that hands back (match, key) or None: path-sensitive pass over the flat view - at
            # every return of a FileRecord the `secs` group of a match has been read without raising
            f2, g2 = vw.fn(), vw.cfg()
            G2 = {n.id for n in g2.nodes if n.ast is not None and not isinstance(n.ast, (ast.For, ast.Try, ast.If, ast.While)) and any(
                isinstance(c, ast.Call) and isinstance(c.func, ast.Attribute) and c.func.attr == "group" and c.args
                and pyfront.const(c.args[0]) == "secs" for c in ast.walk(n.ast))}
            ret2 = [n for n in g2.nodes if n.kind == "return" and "FileRecord" in n.label]
            secs_ok = secs_ok or (bool(G2) and any(isinstance(lp, ast.For) and norm(ast.unparse(lp.iter)) == "self.regexes" for lp in ast.walk(f2)))
            if G2 and ret2:
                MS2 = mutation_states(g2, G2, copies=True, exc_pre=True)
                proved = all(MS2.get(x.id) and all(mut for env_, mut in MS2[x.id]) for x in ret2)
            if not proved:
                raise AnalysisError("%s: whether a FileRecord is built only after a regex match that yielded `secs` is not decided (helpers %s inlined)" % (
                    q, vw.inlined))
        if ret and kv and secs_ok and (proved or structural or all(pyutil.truth_guarded(g, x.id, kv) for x in ret)):
            r.ok("%s:%s %s" % (m.rel, ret[0].line, q), "a FileRecord is built only after one of the handler's regexes matched the path and "
                 "yielded a `secs` group (`%s` is not None)" % kv)
        elif not ret or not kv:
            raise AnalysisError("%s: FileRecord(key=<var>, ...) return not recognised" % q)
        else:
            r.violation(m.rel, q, "FileRecord construction", "a record can be created for a path that did not "
                        "match the data-file grammar", line=ret[0].line)
        r.ok("%s FileRecord" % m.rel, "constructed only in %s: every record handled by the ringbuffer stems from a grammar match" % q)
    else:
        r.violation(m.rel, "-", "FileRecord built in %s" % sorted(builders), "records are created outside %s" % ro.make_record, line=None)
    # the base handler is constructed with properties excluded (constants)
    init = m.fn(BASE + ".__init__")
    sup = [c for c in ast.walk(init) if isinstance(c, ast.Call) and pyfront.call_name(c) == "super().__init__"]
    def prop_flag(call, name):
        """the constant handed for keyword `name`: written out, or in a module-level dict literal splatted into the call"""
        v = pyfront.kwarg(call, name)
        if v is not None:
            return pyfront.const(v) if isinstance(v, ast.Constant) else "?"
        for k in call.keywords:
            if k.arg is None and isinstance(k.value, ast.Name):
                d = m.module_assign(k.value.id)
                d = d.value if isinstance(d, ast.Assign) else d
                if isinstance(d, ast.Dict):
                    for kk, vv in zip(d.keys, d.values):
                        if isinstance(kk, ast.Constant) and kk.value == name:
                            return pyfront.const(vv) if isinstance(vv, ast.Constant) else "?"
                elif isinstance(d, ast.Call) and pyfront.call_name(d) == "dict":
                    vv = pyfront.kwarg(d, name)
                    if vv is not None:
                        return pyfront.const(vv) if isinstance(vv, ast.Constant) else "?"
                else:
                    return "?"
        return "?" if any(k.arg is None for k in call.keywords) else None
    flags = [prop_flag(sup[0], "include_drf_properties"), prop_flag(sup[0], "include_dmd_properties")] if sup else []
    if sup and flags == [False, False]:
        r.ok("%s:%s %s.__init__" % (m.rel, sup[0].lineno, BASE), "event filter built with include_*_properties=False (constants): "
             "its regexes are a subset of {RE_DRF, RE_DMD, RE_DRFDMD}")
    elif sup and "?" in flags and True not in flags and None not in flags:
        raise AnalysisError("%s.__init__: the values handed for include_*_properties were not resolved to constants (%s): not decided" % (BASE, flags))
    else:
        r.violation(m.rel, BASE + ".__init__", "include_*_properties not constant False", "properties files could be tracked and "
                    "therefore deleted", line=init.lineno)
    f = cfold.Folder(repo)
    pats = {n: f.name("list_drf", n) for n in ("RE_DRF", "RE_DMD", "RE_DRFDMD")}
    pats["PROPNAME"] = r"[^\n]*/(?:drf_properties|dmd_properties|metadata)\.h5$"
    pats["TMPNAME"] = r"[^\n]*/tmp\.[^/\n]*$"
    sp = rx.Space(pats, texts=["tmp.rf@/\n0123456789-T"])
    for n in ("RE_DRF", "RE_DMD", "RE_DRFDMD"):
        w = (sp[n] & sp["PROPNAME"]).witness()
        if w is None:
            r.ok("list_drf.%s" % n, "accepts no properties-file path")
        else:
            r.violation("python/digital_rf/list_drf.py", "-", n, "a properties file can be tracked (witness %r)" % w)
        w = (sp[n] & sp["TMPNAME"]).witness()
        if w is None:
            r.ok("list_drf.%s" % n, "accepts no path whose file name starts with tmp. (whatever the directories above are called)")
        else:
            r.violation("python/digital_rf/list_drf.py", "-", "%s accepts a tmp. file" % n, "the writer's in-progress file can be tracked and "
                        "therefore deleted by the ringbuffer (witness %r)" % w)
    r.guard(10)
    return r


def mutation_states(g, muts, copies=False, exc_pre=False, forks=None):
    """Small path-sensitive analysis: for every CFG node the set of pairs (None-ness of the local names tested with
    `is None` / `is not None`, has-a-mutation-node-been-passed).  Branches of such tests filter the pairs, so the
    correlation `k is None  <=>  the else-branch already inserted` is kept.  Returns {node id: set of (frozenset, bool)}."""
    tested = set()
    for n in g.nodes:
        if n.kind == "cond" and isinstance(n.ast, ast.Compare) and len(n.ast.ops) == 1 and isinstance(n.ast.left, ast.Name) \
                and isinstance(n.ast.comparators[0], ast.Constant) and n.ast.comparators[0].value is None:
            tested.add(n.ast.left.id)
    if copies:
        # names copied into a tested name are tracked as well (`timed = __inl_1` after a helper was inlined)
        changed = True
        while changed:
            changed = False
            for n in g.nodes:
                a = n.ast
                if isinstance(a, ast.Assign) and len(a.targets) == 1 and isinstance(a.targets[0], ast.Name) and a.targets[0].id in tested \
                        and isinstance(a.value, ast.Name) and a.value.id not in tested:
                    tested.add(a.value.id)
                    changed = True

    def setv(env, k, v):
        d = dict(env)
        d[k] = v
        return frozenset(d.items())

    def step(node, st):
        env, mut = st
        a = node.ast
        if node.id in muts:
            mut = True
        if isinstance(a, ast.Assign) and len(a.targets) == 1 and isinstance(a.targets[0], ast.Name) and a.targets[0].id in tested:
            v = a.value
            if copies and isinstance(v, ast.Name) and v.id in tested:
                env = setv(env, a.targets[0].id, dict(env).get(v.id, "Top"))
            elif copies and isinstance(v, (ast.Tuple, ast.List, ast.Dict, ast.Set, ast.JoinedStr)):
                env = setv(env, a.targets[0].id, "NotNone")
            else:
                env = setv(env, a.targets[0].id, ("None" if (isinstance(v, ast.Constant) and v.value is None) else
                                                "NotNone" if isinstance(v, ast.Constant) else "Top"))
        elif isinstance(a, ast.For):
            for t in ast.walk(a.target):
                if isinstance(t, ast.Name) and t.id in tested:
                    it = a.iter
                    env = setv(env, t.id, "NotNone" if isinstance(it, ast.Call) and pyfront.call_name(it) in ("enumerate", "range") else "Top")
        return (env, mut)

    def edge_ok(node, lab, st):
        if node.kind == "cond" and isinstance(node.ast, ast.Compare) and len(node.ast.ops) == 1 and isinstance(node.ast.left, ast.Name) \
                and node.ast.left.id in tested and lab in ("T", "F"):
            v = dict(st[0]).get(node.ast.left.id, "Top")
            if v == "Top":
                return True
            isnot = isinstance(node.ast.ops[0], ast.IsNot)
            truth = (v != "None") if isnot else (v == "None")
            return lab == ("T" if truth else "F")
        return True

    IN = {g.entry.id: {(frozenset(), False)}}
    work = [g.entry.id]
    while work:
        a = work.pop()
        for st in list(IN[a]):
            outs = [step(g.nodes[a], st)]
            if forks and a in forks:
                # `v = helper(...)` where the helper hands back None, or a value after passing a mutation node of its own
                tested.add(forks[a])
                outs = [(setv(st[0], forks[a], "None"), st[1]), (setv(st[0], forks[a], "NotNone"), True)]
            for out in outs:
              for b, lab in g.succ[a]:
                if lab == "exc":
                    if exc_pre:
                        # the node raised: its own effect did not happen
                        cur = IN.setdefault(b, set())
                        if st not in cur:
                            cur.add(st)
                            work.append(b)
                    continue
                if not edge_ok(g.nodes[a], lab, out):
                    continue
                cur = IN.setdefault(b, set())
                if out not in cur:
                    cur.add(out)
                    work.append(b)
    # state *after* the node for returns is what matters: apply step
    return {k: {step(g.nodes[k], st) for st in v} for k, v in IN.items()}


def _helper_matches_before_value(m, hq):
    """does private helper hq return a non-None value only after reading the `secs` group of a match without raising?"""
    hf, hg = m.fn(hq), m.cfg(hq)
    G = {n.id for n in hg.nodes if n.ast is not None and not isinstance(n.ast, (ast.For, ast.Try, ast.If, ast.While)) and any(
        isinstance(c, ast.Call) and isinstance(c.func, ast.Attribute) and c.func.attr == "group" and c.args
        and pyfront.const(c.args[0]) == "secs" for c in ast.walk(n.ast))}
    if not G or not any(isinstance(lp, ast.For) and norm(ast.unparse(lp.iter)) == "self.regexes" for lp in ast.walk(hf)):
        return False
    MS = mutation_states(hg, G, copies=True, exc_pre=True)
    rets = [n for n in hg.nodes if n.kind == "return"]
    for n in rets:
        v = n.ast.value if isinstance(n.ast, ast.Return) else None
        if v is None or (isinstance(v, ast.Constant) and v.value is None):
            continue
        if not MS.get(n.id) or not all(mut for env_, mut in MS[n.id]):
            return False
    # falling off the end returns None
    return bool(rets)


def _returns(fn):
    return [n for n in pyfront.walk_no_nested(fn) if isinstance(n, ast.Return)]


def r2_accounting_pairs_with_mutation(repo=None):
    r = Rule("C16.R2", "size accounting is adjusted exactly when the queue / record table was actually changed (must-pass across the override)")
    ro = rbroles.roles(repo)
    m = ro.m
    SE = ro.size_mixin
    for name in (ro.enq, ro.deq, ro.modify):
        oq, bq = "%s.%s" % (SE, name), "%s.%s" % (BASE, name)
        of, bf = m.fn(oq), m.fn(bq)
        og, bg = m.cfg(oq), m.cfg(bq)
        sup = [n for n in og.nodes if any(pyfront.call_name(c) == "super()." + name for c in pyfront.node_calls(n))]
        upd = [n for n in og.nodes if isinstance(n.ast, ast.AugAssign) and pyfront.dotted(n.ast.target) == "self.active_size"]
        if len(sup) != 1 or not upd:
            raise AnalysisError("%s: super().%s call / active_size update not found" % (oq, name))
        flag = None
        if isinstance(sup[0].ast, ast.Assign) and isinstance(sup[0].ast.targets[0], ast.Name):
            flag = sup[0].ast.targets[0].id
        elif sup[0].kind == "cond":
            flag = "<cond>"       # `if super().hook(rec): ...` - the call result is tested directly
        # mutation sites in the delegate
        qlocals = {x.targets[0].id for x in pyfront.walk_no_nested(bf) if isinstance(x, ast.Assign) and isinstance(x.targets[0], ast.Name)
                   and norm(ast.unparse(x.value)).startswith("self.queues[")}

        def mutates(n):
            for c in pyfront.node_calls(n):
                if isinstance(c.func, ast.Attribute) and c.func.attr in ("append", "appendleft", "remove", "popleft", "pop", "insert"):
                    recv = norm(ast.unparse(c.func.value))
                    if recv in qlocals or recv.startswith("self.queues[") or recv == "self.records":
                        return True
                if pyfront.call_name(c) in ("self." + ro.add_record,):
                    return True
            a = n.ast
            if isinstance(a, (ast.Assign, ast.Delete)):
                for t in a.targets:
                    if isinstance(t, ast.Subscript) and norm(ast.unparse(t.value)) == "self.records":
                        return True
            return False
        muts = [n.id for n in bg.nodes if mutates(n)]
        MS = mutation_states(bg, set(muts))
        if flag is None:
            # unconditional update: the delegate must mutate on every normal-return path
            exits = [n for n in bg.nodes if n.kind == "return"] + [bg.exit]
            bad = None
            for x in exits:
                if any(not mut for env, mut in MS.get(x.id, ())) and x.kind == "return":
                    bad = x
                if x is bg.exit:
                    for pnode, lab in bg.pred[x.id]:
                        if bg.nodes[pnode].kind != "return" and any(not mut for env, mut in MS.get(pnode, ())):
                            bad = bg.nodes[pnode]
            # bg.exit is reached through returns too; only count fall-through or explicit returns not passing a mutation
            if bad is not None:
                r.violation(m.rel, oq, "self.active_size updated after super().%s() unconditionally" % name,
                            "the base method can return normally without changing the queue (e.g. the path is already queued), but the "
                            "override adjusts active_size anyway: the accounted size drifts from the tracked files, so files are "
                            "expired although the limit is not exceeded (or kept although it is)", line=upd[0].line,
                            path=bg.describe(bg.path(bg.entry.id, bad.id, avoid=muts, skip_labels=("exc",)) or [bad.id]))
            else:
                r.ok("%s:%s %s" % (m.rel, upd[0].line, oq), "base %s mutates the queue on every normal-return path; the size update is "
                     "unconditional" % name)
            continue
        # flag idiom: update is control dependent on the flag; delegate's truthy returns <=> mutation
        ctrl = None
        if flag == "<cond>":
            tsucc = og.reach([b_ for b_, lab in og.succ[sup[0].id] if lab == "T"], skip_labels=("exc",))
            fsucc = og.reach([b_ for b_, lab in og.succ[sup[0].id] if lab == "F"], skip_labels=("exc",))
            pos = all(n.id in tsucc and n.id not in fsucc for n in upd)
            negd = all(n.id in fsucc and n.id not in tsucc for n in upd)
        else:
            pos = all(pyutil.truth_guarded(og, n.id, flag, True) for n in upd)
            negd = all(pyutil.truth_guarded(og, n.id, flag, False) for n in upd)
        if pos or negd:
            ctrl = (None, negd and not pos)
        if ctrl is None:
            r.violation(m.rel, oq, "active_size update not guarded by `%s`" % flag, "the flag returned by the base method is ignored",
                        line=upd[0].line)
            continue
        neg = ctrl[1]
        bad = None
        for x in bg.nodes:
            if x.kind != "return":
                continue
            v = x.ast.value
            val = pyfront.const(v) if v is not None else None
            truthy = bool(val)
            passed = all(mut for env, mut in MS.get(x.id, ()))
            may_pass = any(mut for env, mut in MS.get(x.id, ()))
            if v is not None and not isinstance(v, ast.Constant):
                bad = (x, "returns a non-constant")
            elif truthy and not passed:
                bad = (x, "returns %r without having changed the queue/records on some path" % val)
            elif not truthy and may_pass:
                bad = (x, "returns %r after changing the queue/records" % val)
        # falling off the end returns None (falsy): must not have mutated -- unless every path ends in an explicit return
        fall = [p for p, l in bg.pred[bg.exit.id] if bg.nodes[p].kind != "return"]
        if fall and any(mut for i in fall for env, mut in MS.get(i, ())):
            bad = (bg.nodes[fall[0]], "falls off the end (None) after changing the queue")
        if bad:
            r.violation(m.rel, bq, "%s: %s" % (norm(bad[0].label)[:50], bad[1]), "the flag that tells the size-tracking mixin whether "
                        "the base method changed anything does not match what the base method did", line=bad[0].line)
        else:
            meaning = "handled elsewhere" if neg else "changed"
            r.ok("%s:%s %s" % (m.rel, upd[0].line, oq), "size update guarded by the flag of base.%s (truthy = %s); every truthy return "
                 "follows a mutation, no falsy return does" % (name, meaning))
    # overwriting a tracked record goes through _modify_record (which re-accounts its size)
    q = ro.q(ro.add_record)
    g = m.cfg(q)
    store = [n for n in g.nodes if isinstance(n.ast, ast.Assign) and norm(ast.unparse(n.ast.targets[0])) == "self.records[rec.path]"]
    fq = m.fn(q)
    once = {}
    for a_ in pyfront.walk_no_nested(fq):
        if isinstance(a_, ast.Assign) and len(a_.targets) == 1 and isinstance(a_.targets[0], ast.Name):
            once.setdefault(a_.targets[0].id, []).append(a_.value)

    def is_membership(e):
        if isinstance(e, ast.Name) and len(once.get(e.id, ())) == 1:
            e = once[e.id][0]       # `tracked = rec.path in self.records; if tracked:`
        return isinstance(e, ast.Compare) and len(e.ops) == 1 and isinstance(e.ops[0], ast.In) and norm(ast.unparse(e)) == "rec.path in self.records"
    test = [n for n in g.nodes if n.kind == "cond" and n.ast is not None and isinstance(n.ast, ast.expr) and is_membership(n.ast)]
    mod = [n.id for n in g.nodes if any(pyfront.call_name(c) == "self." + ro.modify for c in pyfront.node_calls(n))]
    if not store:
        raise AnalysisError("%s: self.records[rec.path] = rec not found" % q)
    if test and mod and all(s.id not in g.reach([g.entry.id], avoid=[test[0].id], skip_labels=("exc",)) for s in store) and \
            all(s.id not in g.reach([b for b, l in g.succ[test[0].id] if l == "T"], avoid=mod, skip_labels=("exc",)) for s in store):
        r.ok("%s:%s %s" % (m.rel, store[0].line, q), "a record that is already tracked is replaced only after _modify_record re-accounted it")
    elif not test or not mod:
        raise AnalysisError("%s: the membership test `rec.path in self.records` (%d) / the call of %s (%d) was not recognised" % (
            q, len(test), ro.modify, len(mod)))
    else:
        r.violation(m.rel, q, "self.records[rec.path] = rec without _modify_record for an existing path", "re-adding a tracked file whose "
                    "size changed replaces its record without adjusting active_size: the accounted size no longer equals the sum of "
                    "the tracked files", line=store[0].line)
    r.guard(4)
    return r


def r3_oldest_first_and_owners(repo=None):
    r = Rule("C16.R3", "victims are taken from the head ([0]) of a queue; queues and records are mutated only by their owners")
    ro = rbroles.roles(repo)
    m = ro.m
    MIXINS = tuple(ro.mixins)
    queue_owner = {ro.q(ro.enq), ro.q(ro.deq)}
    rec_owner = {ro.q(ro.add_record), ro.q(ro.remove_record), ro.q(ro.expire_head), "%s.%s" % (ro.size_mixin, ro.modify)}
    n_sub = 0
    for q, f in m.functions.items():
        if not (q.startswith(BASE) or q.split(".")[0] in MIXINS):
            continue
        for n in pyfront.walk_no_nested(f):
            if isinstance(n, ast.Subscript) and isinstance(n.ctx, ast.Load):
                base = norm(ast.unparse(n.value))
                isq = base == "queue" or base.startswith("self.queues[")
                if not isq:
                    continue
                idx = n.slice
                cidx = pyfront.const(idx)
                if cidx is None and isinstance(idx, ast.UnaryOp) and isinstance(idx.op, ast.USub):
                    cidx = -(pyfront.const(idx.operand) or 0)
                if not isinstance(cidx, int):
                    continue
                n_sub += 1
                site = "%s:%s %s `%s`" % (m.rel, n.lineno, q, norm(ast.unparse(n)))
                if cidx == 0:
                    r.ok(site, "head of the time-ordered queue (oldest)")
                elif q.split(".")[0] in MIXINS and any(isinstance(d_, ast.Name) and d_.id == "staticmethod" for d_ in f.decorator_list):
                    r.ok(site, "newest element, used only to measure the queue's time span")
                else:
                    r.violation(m.rel, q, norm(ast.unparse(n)), "an element other than the oldest is selected from a queue: a newer "
                                "file could be deleted while an older one is kept", line=n.lineno)
            if isinstance(n, ast.Call) and isinstance(n.func, ast.Attribute):
                recv = norm(ast.unparse(n.func.value))
                if n.func.attr in QUEUE_MUT and (recv == "queue" or recv.startswith("self.queues[")):
                    if q in queue_owner:
                        r.ok("%s:%s %s `%s`" % (m.rel, n.lineno, q, norm(ast.unparse(n))[:50]), "queue mutated by its owner")
                    else:
                        r.violation(m.rel, q, norm(ast.unparse(n))[:60], "a queue is modified outside its insertion/removal hooks: "
                                    "the size/count accounting of the mixins is bypassed", line=n.lineno)
                if n.func.attr in ("pop", "popitem", "clear", "update", "setdefault") and recv == "self.records":
                    if q in rec_owner:
                        r.ok("%s:%s %s `%s`" % (m.rel, n.lineno, q, norm(ast.unparse(n))[:50]), "record table changed by an owner")
                    else:
                        r.violation(m.rel, q, norm(ast.unparse(n))[:60], "the record table is changed outside its owner methods", line=n.lineno)
            if isinstance(n, (ast.Assign, ast.Delete)):
                tg = n.targets
                for t in tg:
                    if isinstance(t, ast.Subscript) and norm(ast.unparse(t.value)) == "self.records":
                        if q in rec_owner:
                            r.ok("%s:%s %s `%s`" % (m.rel, n.lineno, q, norm(ast.unparse(n))[:50]), "record table changed by an owner")
                        else:
                            r.violation(m.rel, q, norm(ast.unparse(n))[:60], "the record table is changed outside its owner methods",
                                        line=n.lineno)
    if n_sub < 4:
        raise AnalysisError("only %d constant queue subscripts found" % n_sub)
    # the victim of _expire_oldest_from_group is the head
    ef = m.fn(ro.q(ro.expire_head))
    head_vars = set()
    for n in pyfront.walk_no_nested(ef):
        if isinstance(n, ast.Assign) and norm(ast.unparse(n.value)) == "self.queues[group][0]" and isinstance(n.targets[0], ast.Tuple):
            head_vars |= {e.id for e in n.targets[0].elts if isinstance(e, ast.Name)}
    pops = [c for c in pyfront.walk_no_nested(ef) if isinstance(c, ast.Call) and pyfront.call_name(c) == "self.records.pop"]
    popped = {m.parents.get(c).targets[0].id for c in pops if isinstance(m.parents.get(c), ast.Assign)
              and isinstance(m.parents.get(c).targets[0], ast.Name)}
    rm = [c for c in pyfront.walk_no_nested(ef) if isinstance(c, ast.Call) and pyfront.call_name(c) == "self." + ro.deq
          and c.args and isinstance(c.args[0], ast.Name) and c.args[0].id in popped]
    if not pops:
        raise AnalysisError("%s: self.records.pop(...) not found" % ro.q(ro.expire_head))
    if len(pops) == 1 and pops[0].args and isinstance(pops[0].args[0], ast.Name) and pops[0].args[0].id in head_vars and rm:
        r.ok("%s %s" % (m.rel, ro.q(ro.expire_head)), "victim = head of the group's queue; its record is removed and the "
             "(overridable) queue-removal hook is used")
    else:
        r.violation(m.rel, ro.q(ro.expire_head), "victim selection", "the expired record is not the head of the group's queue",
                    line=ef.lineno)
    r.guard(10)
    return r


def r4_limits_reestablished(repo=None):
    r = Rule("C16.R4", "every configured limit is re-established after each addition (cooperative chain complete)")
    ro = rbroles.roles(repo)
    m = ro.m
    MIXINS = tuple(ro.mixins)
    q = ro.q(ro.add_record)
    g = m.cfg(q)
    exp = [n.id for n in g.nodes if any(pyfront.call_name(c) == "self." + ro.expire for c in pyfront.node_calls(n))]
    store = [n for n in g.nodes if isinstance(n.ast, ast.Assign) and norm(ast.unparse(n.ast.targets[0])) == "self.records[rec.path]"]
    if not exp or not store:
        raise AnalysisError("%s: _expire call or record store not found" % q)
    if g.exit.id in g.reach([store[0].id], avoid=exp, skip_labels=("exc",)):
        r.violation(m.rel, q, "path from the record store to the exit without self._expire(rec.group)", "after a file was added the "
                    "limits are not re-checked on some path: the ringbuffer can stay over its limit", line=store[0].line,
                    path=g.describe(g.path(store[0].id, g.exit.id, avoid=exp, skip_labels=("exc",)) or []))
    else:
        r.ok("%s:%s %s" % (m.rel, store[0].line, q), "every normal path after storing the record reaches self._expire(rec.group)")
    base_methods = set(m.methods(BASE))
    n_over = 0
    undecided = []
    for mx in MIXINS:
        for name, f in m.methods(mx).items():
            if name not in base_methods:
                continue
            n_over += 1
            oq = "%s.%s" % (mx, name)
            og = m.cfg(oq)
            sup = [n.id for n in og.nodes if any(pyfront.call_name(c) == "super()." + name for c in pyfront.node_calls(n))]
            wrong = [c for c in ast.walk(f) if isinstance(c, ast.Call) and (pyfront.call_name(c) or "").startswith("super().")
                     and isinstance(c.func.value, ast.Call) and c.func.value.args and norm(ast.unparse(c.func.value.args[0])) != mx]
            if not sup or og.exit.id in og.reach([og.entry.id], avoid=sup, skip_labels=("exc",)) or wrong:
                r.violation(m.rel, oq, "override does not call super(%s, self).%s() on every path" % (mx, name),
                            "the cooperative chain is broken: the limits / bookkeeping of the mixins after this one are skipped",
                            line=f.lineno)
            else:
                r.ok("%s:%s %s" % (m.rel, f.lineno, oq), "delegates to the next class in the MRO on every normal path")
            if name == ro.expire:
                loops = [s for s in ast.walk(f) if isinstance(s, ast.While)]
                ifs = [s for s in pyfront.walk_no_nested(f) if isinstance(s, ast.If)]
                # the loop body expires the head of a queue: directly, or through a method of the mixin that does
                def expires_head(callname, depth=0):
                    if callname == "self." + ro.expire_head:
                        return True
                    if callname.startswith("self.") and depth < 3:
                        # a method of the mixin itself or of the base handler (the hook may have been split into smaller methods)
                        h = m.methods(mx).get(callname[5:]) or m.methods(BASE).get(callname[5:])
                        if h is not None:
                            return any(isinstance(c2, ast.Call) and expires_head(pyfront.call_name(c2) or "", depth + 1) for c2 in ast.walk(h))
                    return False
                if len(loops) == 1 and not ifs and any(isinstance(c, ast.Call) and expires_head(pyfront.call_name(c) or "")
                                                       for c in ast.walk(loops[0])):
                    r.ok("%s:%s %s" % (m.rel, loops[0].lineno, oq), "`while <limit exceeded>: expire oldest` (repeats until the limit holds)")
                elif loops:
                    # not decided - unless the rule has positive findings of its own (they outrank, and must not be lost)
                    undecided.append("%s: a while loop exists but was not recognised as `while <limit exceeded>: expire the oldest`" % oq)
                else:
                    r.violation(m.rel, oq, "limit enforcement is not a while loop", "one expiration may not be enough to get back under "
                                "the limit", line=f.lineno)
    if undecided and not r.findings:
        raise AnalysisError(undecided[0])
    if n_over < 9:
        raise AnalysisError("only %d mixin overrides found, 10 confirmed" % n_over)
    fac = m.fn("DigitalRFRingbufferHandler")
    tcalls = [c for c in ast.walk(fac) if isinstance(c, ast.Call) and pyfront.call_name(c) == "type" and len(c.args) == 3]
    if len(tcalls) != 1 or not isinstance(tcalls[0].args[1], ast.Name):
        raise AnalysisError("DigitalRFRingbufferHandler: type(name, bases, dict) with a bases variable not found")
    bv = tcalls[0].args[1].id
    init_ok = False
    bad_compose = None
    n_prepend = 0
    for n in ast.walk(fac):
        if isinstance(n, ast.Assign) and any(isinstance(t, ast.Name) and t.id == bv for t in n.targets):
            v = n.value
            if isinstance(v, ast.Tuple) and len(v.elts) == 1 and isinstance(v.elts[0], ast.Name) and v.elts[0].id == BASE:
                init_ok = True
            elif isinstance(v, ast.BinOp) and isinstance(v.op, ast.Add) and isinstance(v.right, ast.Name) and v.right.id == bv \
                    and isinstance(v.left, ast.Tuple) and len(v.left.elts) == 1:
                n_prepend += 1
            else:
                # a sum of tuples: where does the base class stand?  last (mixins first in the MRO) is the other accepted form
                ops_ = []

                def flat_(e):
                    if isinstance(e, ast.BinOp) and isinstance(e.op, ast.Add):
                        flat_(e.left)
                        flat_(e.right)
                    else:
                        ops_.append(e)
                flat_(v)

                def has_base(e):
                    return (isinstance(e, ast.Name) and e.id == bv) or (isinstance(e, (ast.Tuple, ast.List)) and any(
                        isinstance(x, ast.Name) and x.id == BASE for x in e.elts))
                pos = [i for i, e in enumerate(ops_) if has_base(e)]
                last = ops_[-1]
                base_last = len(pos) == 1 and pos[0] == len(ops_) - 1 and (
                    isinstance(last, ast.Name) or (isinstance(last.elts[-1], ast.Name) and last.elts[-1].id == BASE
                                                   and sum(1 for x in last.elts if isinstance(x, ast.Name) and x.id == BASE) == 1))
                if base_last and len(ops_) >= 2:
                    init_ok = True
                    n_prepend += 1
                elif pos:
                    bad_compose = n           # the base class stands before something else: positive evidence
                else:
                    raise AnalysisError("DigitalRFRingbufferHandler: composition `%s` of the bases not recognised" % norm(ast.unparse(n))[:80])
        elif isinstance(n, ast.AugAssign) and isinstance(n.target, ast.Name) and n.target.id == bv:
            bad_compose = n
    # every mixin is offered: named directly in a prepend, or listed in the module-level table the prepending loop iterates over
    named = {x.id for x in ast.walk(fac) if isinstance(x, ast.Name)}
    for st in m.tree.body:
        if isinstance(st, ast.Assign) and isinstance(st.targets[0], ast.Name) and st.targets[0].id in named:
            named |= {x.id for x in ast.walk(st.value) if isinstance(x, ast.Name)}
    missing = [mx for mx in MIXINS if mx not in named]
    if init_ok and n_prepend >= 1 and bad_compose is None and not missing:
        r.ok("%s:%s DigitalRFRingbufferHandler" % (m.rel, fac.lineno), "the class is composed by prepending each selected mixin to (base,): "
             "mixins come first in the MRO")
    else:
        x = bad_compose or fac
        r.violation(m.rel, "DigitalRFRingbufferHandler", "class composition" + ((": " + norm(ast.unparse(bad_compose))[:60]) if bad_compose is not None else "")
                    + ((" (mixins never composed: %s)" % missing) if missing else ""),
                    "a mixin is placed after the base class or not composed", line=x.lineno)
    r.guard(12)
    return r


def r5_growth_rechecks_the_limit(repo=None):
    """'... once a newly reported file has been handled every configured limit holds again' and 'bookkeeping equals the truth': every
    place where the size mixin *increases* the tracked total must be followed by the limit enforcement hook before control returns
    to the event entry points.  For each `self.active_size += ...` in a hook H of the size mixin: either every normal path from
    the increase to H's exit calls the enforcement hook, or every call site `self.H(...)` in the handler classes is followed by it
    on every normal path of the caller (the add path: _add_to_queue is followed by _expire in _add_record).  The modify hook had
    neither: a tracked file that grows (`modified` event, the normal way Digital Metadata files are written) left the total over
    the limit until some other file was reported."""
    r = Rule("C16.R5", "every increase of the tracked total size is followed by the limit enforcement")
    ro = rbroles.roles(repo)
    m = ro.m
    mx = ro.size_mixin
    EXP = "self." + ro.expire
    n_sites = 0
    classes = [BASE] + list(ro.mixins)
    for name, f in m.methods(mx).items():
        q = "%s.%s" % (mx, name)
        incs = [n for n in pyfront.walk_no_nested(f) if isinstance(n, ast.AugAssign) and isinstance(n.op, ast.Add)
                and pyfront.dotted(n.target) == "self.active_size"]
        if not incs:
            continue
        g = m.cfg(q)
        exp_nodes = [n.id for n in g.nodes if any(pyfront.call_name(c) == EXP for c in pyfront.node_calls(n))]
        for inc in incs:
            n_sites += 1
            node = [n for n in g.nodes if n.ast is inc]
            if not node:
                raise AnalysisError("%s: increment not found in the CFG" % q)
            site = "%s:%s %s `%s`" % (m.rel, inc.lineno, q, norm(ast.unparse(inc)))
            if g.exit.id not in g.reach([node[0].id], avoid=exp_nodes, skip_labels=("exc",)) and exp_nodes:
                r.ok(site, "followed by %s(...) on every normal path of the hook" % EXP)
                continue
            # callers of the hook
            callers = []
            for cls in classes:
                for cname, cf in m.methods(cls).items():
                    if cname == name and cls != mx:
                        continue
                    for c in pyfront.walk_no_nested(cf):
                        if isinstance(c, ast.Call) and pyfront.call_name(c) == "self." + name:
                            callers.append((cls, cname, c))
            bad = None
            for cls, cname, c in callers:
                cq = "%s.%s" % (cls, cname)
                cg = m.cfg(cq)
                cn = [n for n in cg.nodes if any(x is c for x in pyfront.node_calls(n))]
                cexp = [n.id for n in cg.nodes if any(pyfront.call_name(x) == EXP for x in pyfront.node_calls(n))]
                if not cn:
                    raise AnalysisError("%s: call of %s not found in the CFG" % (cq, name))
                if cg.exit.id in cg.reach([b for b, _l in cg.succ[cn[0].id]], avoid=cexp, skip_labels=("exc",)):
                    # the caller may itself be a hook whose callers enforce the limit (one more level)
                    outer = []
                    for cls2 in classes:
                        for cname2, cf2 in m.methods(cls2).items():
                            for c2 in pyfront.walk_no_nested(cf2):
                                if isinstance(c2, ast.Call) and pyfront.call_name(c2) == "self." + cname and cname2 != cname:
                                    outer.append((cls2, cname2, c2))
                    covered = bool(outer) and cname.startswith("_")
                    for cls2, cname2, c2 in outer:
                        og = m.cfg("%s.%s" % (cls2, cname2))
                        on = [n for n in og.nodes if any(x is c2 for x in pyfront.node_calls(n))]
                        oexp = [n.id for n in og.nodes if any(pyfront.call_name(x) == EXP for x in pyfront.node_calls(n))]
                        if not on or og.exit.id in og.reach([b for b, _l in og.succ[on[0].id]], avoid=oexp, skip_labels=("exc",)):
                            covered = False
                    if not covered:
                        bad = (cq, c)
                        break
            if not callers:
                bad = (q, inc)
            if bad is None:
                r.ok(site, "every caller of the hook (%s) goes on to %s(...)" % (", ".join(sorted({"%s.%s" % (a, b) for a, b, _ in callers})), EXP))
            else:
                r.violation(m.rel, q, norm(ast.unparse(inc)), "the tracked total can grow here and control returns to `%s` without the limit "
                            "being enforced: a tracked file that grows in place (a `modified` event - how Digital Metadata files are "
                            "written) leaves the ringbuffer over its size limit until some other file is reported, and a later sorted "
                            "batch can then re-add a record for a file the ringbuffer itself deleted" % bad[0], line=inc.lineno)
    if n_sites < 2:
        raise AnalysisError("%s: %d increases of active_size found, 2 confirmed" % (mx, n_sites))
    r.guard(2)
    return r


def r6_scan_agrees_with_event_filter(repo=None):
    """'Its bookkeeping always equals the truth about the files it tracks': a file taken into the ringbuffer by a scan of the disk
    (at start, after an observer restart) must be one the handler accepts events for - otherwise its growth and its deletion are
    never registered.  A listing with a start time *forward fills*: it also yields the latest metadata file named before the
    start, which the handler's window rejects.  So every `ilsdrf` listing of the ringbuffer class that is given a time window
    is filtered through the handler's own path match (`<handler>._match_path(path, True)`) before it is used."""
    r = Rule("C16.R6", "files found by scanning the disk are tracked only if the event handler accepts events for them")
    m = pyfront.mod("ringbuffer", repo)
    n = 0

    def windowed_listing(c):
        if not (isinstance(c, ast.Call) and (pyfront.call_name(c) or "").split(".")[-1] == "ilsdrf"):
            return False
        kw = {k.arg: k.value for k in c.keywords}
        return any(k in kw and not (isinstance(kw[k], ast.Constant) and kw[k].value is None) for k in ("starttime", "endtime"))
    # methods that hand a windowed listing back unfiltered (`return ilsdrf(...)`): a call of such a method is a listing as well
    raw_listers = set()
    for _round in range(3):
        for q, f0 in m.functions.items():
            if "." not in q or "<locals>" in q:
                continue
            for rt in pyfront.walk_no_nested(f0):
                if isinstance(rt, ast.Return) and rt.value is not None:
                    v = rt.value
                    if isinstance(v, ast.Name):
                        ds = [a_.value for a_ in pyfront.walk_no_nested(f0) if isinstance(a_, ast.Assign) and any(
                            isinstance(t, ast.Name) and t.id == v.id for t in a_.targets)]
                        v = ds[0] if len(ds) == 1 else v
                    if windowed_listing(v) or (isinstance(v, ast.Call) and isinstance(v.func, ast.Attribute) and isinstance(v.func.value, ast.Name)
                                                and v.func.value.id == "self" and v.func.attr in raw_listers):
                        raw_listers.add(q.split(".")[-1])
    for q, f0 in m.functions.items():
        if "." not in q or "<locals>" in q:
            continue
        fvw = m.flat(q)            # private helpers inlined: a listing made in a helper is judged where it is used
        f = fvw.fn()
        for c in pyfront.walk_no_nested(f):
            is_raw_call = isinstance(c, ast.Call) and isinstance(c.func, ast.Attribute) and isinstance(c.func.value, ast.Name) \
                and c.func.value.id == "self" and c.func.attr in raw_listers
            if not (windowed_listing(c) or is_raw_call):
                continue
            # the name the listing is bound to (or the call itself) must be the iterable of a comprehension with the handler's match as filter
            par = fvw.parents.get(c)
            names = set()
            if isinstance(par, ast.Assign):
                names = {t.id for t in par.targets if isinstance(t, ast.Name)}
            # does the listing reach the handler's bookkeeping?  names derived from it (set(), comprehensions, set differences) that are
            # handed to a method of the event handler; a listing that is only measured (sizes summed for the budget) is not a scan
            derived = set(names)
            for _ in range(3):
                for a_ in pyfront.walk_no_nested(f):
                    if isinstance(a_, ast.Assign) and any(x is c or (isinstance(x, ast.Name) and x.id in derived) for x in ast.walk(a_.value)):
                        derived |= {t.id for t in a_.targets if isinstance(t, ast.Name)}
            to_handler = [k for k in pyfront.walk_no_nested(f) if isinstance(k, ast.Call) and "event_handler" in (pyfront.call_name(k) or "")
                          and any(x is c or (isinstance(x, ast.Name) and x.id in derived) for a0 in list(k.args) + [kw_.value for kw_ in k.keywords] for x in ast.walk(a0))]
            if not to_handler:
                r.note("%s:%s %s: windowed listing not handed to the event handler (measured only)" % (m.rel, c.lineno, q))
                continue
            n += 1
            filt = None
            some_filter = []
            for g_ in pyfront.walk_no_nested(f):
                if isinstance(g_, (ast.GeneratorExp, ast.ListComp, ast.SetComp)) and len(g_.generators) == 1:
                    it = g_.generators[0].iter
                    if it is c or (isinstance(it, ast.Name) and it.id in names):
                        tgt = g_.generators[0].target
                        for cond in g_.generators[0].ifs:
                            some_filter.append(cond)
                            fn_ = cond.func if isinstance(cond, ast.Call) else None
                            if isinstance(fn_, ast.Name):
                                # a local holding the bound method: `accepts = self.event_handler._match_path`
                                ds_ = [a_.value for a_ in pyfront.walk_no_nested(f) if isinstance(a_, ast.Assign) and any(
                                    isinstance(t, ast.Name) and t.id == fn_.id for t in a_.targets)]
                                if len(ds_) == 1 and isinstance(ds_[0], ast.Attribute):
                                    cond = ast.Call(func=ds_[0], args=cond.args, keywords=cond.keywords)
                            if isinstance(cond, ast.Call) and isinstance(cond.func, ast.Attribute) and cond.func.attr == "_match_path" \
                                    and len(cond.args) == 2 and isinstance(tgt, ast.Name) and isinstance(cond.args[0], ast.Name) \
                                    and cond.args[0].id == tgt.id and pyfront.const(cond.args[1]) is True and isinstance(g_.elt, ast.Name) \
                                    and g_.elt.id == tgt.id:
                                filt = g_
            other_uses = [x for x in pyfront.walk_no_nested(f) if isinstance(x, ast.Name) and x.id in names and isinstance(x.ctx, ast.Load)
                          and not (filt is not None and any(x is y for y in ast.walk(filt)))]
            site = "%s:%s %s `%s`" % (m.rel, c.lineno, q, norm(ast.unparse(c))[:60])
            if filt is not None and not other_uses:
                r.ok(site, "the windowed listing is used only through `%s`" % norm(ast.unparse(filt))[:80])
            elif filt is None and some_filter:
                raise AnalysisError("%s: the windowed listing is filtered by `%s`, which was not recognised as the handler's own path match" % (
                    q, norm(ast.unparse(some_filter[0]))[:60]))
            else:
                r.violation(m.rel, q, norm(ast.unparse(c))[:80], "a listing with a time window forward fills (it includes the latest metadata "
                            "file named before the start time), and its files are taken into the ringbuffer unfiltered, but the "
                            "handler drops every event for a file outside of the window: the record of that file - usually the one "
                            "being appended to - goes stale (growth not counted, size limit exceeded unnoticed, deletion never "
                            "registered)", line=c.lineno)
    if n < 1:
        raise AnalysisError("ringbuffer: no windowed ilsdrf listing found (2 scan sites were confirmed on the reference tree)")
    r.guard(1)
    return r


def r7_moved_file_counted_once(repo=None):
    """'deletes only what it must': a rename of a tracked file inside the watched tree changes no count, size or time span, so it
    must not expire anything.  The addition of a name re-establishes the limits (R4) - if the new name is added while the old one
    is still tracked, the file is counted twice at that moment and, with a limit exactly full, the oldest file of the group is
    deleted although no limit is exceeded before or after the move.  Ordering on the CFG of on_moved: no call that adds the
    destination name is reachable from the entry without passing a call that removes the source name."""
    r = Rule("C16.R7", "a moved file is un-tracked under its old name before it is tracked under the new one (never counted twice)")
    ro = rbroles.roles(repo)
    m = ro.m
    q = BASE + ".on_moved"
    if q not in m.functions:
        raise AnalysisError("%s not found" % q)
    g = m.cfg(q)

    def calls_with(n, names, path_attr):
        return [c for c in pyfront.node_calls(n) if (pyfront.call_name(c) or "") in names and any(
            isinstance(x, ast.Attribute) and x.attr == path_attr for a in list(c.args) + [k.value for k in c.keywords] for x in ast.walk(a))]
    adders = ("self.add_files", "self." + ro.add_record, "self._add_files")
    removers = ("self.remove_files", "self._remove_files", "self." + getattr(ro, "remove_record", "_remove_record"))
    adds = [n for n in g.nodes if calls_with(n, adders, "dest_path")]
    rems = [n for n in g.nodes if calls_with(n, removers, "src_path")]
    if not adds or not rems:
        raise AnalysisError("%s: the calls that track event.dest_path (%d) / un-track event.src_path (%d) were not recognised" % (q, len(adds), len(rems)))
    early = [a for a in adds if a.id in g.reach([g.entry.id], avoid=[x.id for x in rems], skip_labels=("exc",))]
    for a in adds:
        site = "%s:%s %s `%s`" % (m.rel, a.line, q, a.label[:50])
        if a in early:
            r.violation(m.rel, q, "%s before the source name is removed" % a.label[:60], "the moved file is tracked under both names while the "
                        "limits are re-established by the addition: with a count or size limit exactly full the oldest file of the "
                        "group is deleted although no limit is exceeded before or after the move", line=a.line)
        else:
            r.ok(site, "reached only after `%s`" % rems[0].label[:50])
    r.guard(1)
    return r


def r8_events_batches_and_rescan(repo=None):
    """'Its bookkeeping always equals the truth about the files it tracks ... including re-scans of files already on disk':
    (a) wiring - created / deleted / modified events reach add_files / remove_files / modify_files with the event's source path, and
    each batch call hands every path (its record, for add / modify) to the matching hook: the loop over the records has no
    filter but `is not None`, no break, no early return; (b) the re-scan after an observer restart compares the tracked set A
    with the files on disk B (set algebra over the three regions A-only, B-only, both, evaluated by truth table): what is
    removed is exactly A - B (a file that is on disk is never dropped from the books, a vanished one always is), what is added
    covers B - A and lies in B, what is re-examined covers A & B."""
    r = Rule("C16.R8", "events and batch calls reach the hooks for every path; the re-scan removes A - B, adds B - A, re-examines A & B")
    ro = rbroles.roles(repo)
    m = ro.m
    # (a) events -> batch calls
    for ev, batch in (("on_created", "add_files"), ("on_deleted", "remove_files"), ("on_modified", "modify_files")):
        q = "%s.%s" % (BASE, ev)
        if q not in m.functions:
            raise AnalysisError("%s not found" % q)
        f = m.fn(q)
        calls = [c for c in ast.walk(f) if isinstance(c, ast.Call) and pyfront.call_name(c) == "self." + batch and c.args
                 and any(isinstance(x, ast.Attribute) and x.attr == "src_path" for x in ast.walk(c.args[0]))]
        body = [x for x in f.body if not (isinstance(x, ast.Expr) and isinstance(x.value, ast.Constant))]
        if len(calls) == 1 and len(body) == 1 and isinstance(body[0], ast.Expr) and body[0].value is calls[0]:
            r.ok("%s:%s %s" % (m.rel, f.lineno, q), "hands event.src_path to %s, unconditionally" % batch)
        elif not calls and any(isinstance(c, ast.Call) and (pyfront.call_name(c) or "").startswith("self.") for c in ast.walk(f)):
            raise AnalysisError("%s: how the event reaches %s was not recognised" % (q, batch))
        elif not calls:
            r.violation(m.rel, q, "no call of self.%s(event.src_path)" % batch, "the event never reaches the bookkeeping", line=f.lineno)
        else:
            raise AnalysisError("%s: the call of %s is conditional or not the only statement" % (q, batch))
    hooks = {"add_files": ro.add_record, "modify_files": ro.modify, "remove_files": ro.remove_record}
    for batch, hook in hooks.items():
        q = "%s.%s" % (BASE, batch)
        f = m.fn(q)
        loops = [lp for lp in ast.walk(f) if isinstance(lp, ast.For) and any(
            isinstance(c, ast.Call) and pyfront.call_name(c) == "self." + hook for c in ast.walk(lp))]
        if len(loops) != 1:
            raise AnalysisError("%s: loop calling self.%s not found exactly once (%d)" % (q, hook, len(loops)))
        lp = loops[0]
        leaves = [x for x in ast.walk(lp) if isinstance(x, (ast.Break, ast.Continue, ast.Return, ast.If))]
        filters = [g_ for x in ast.walk(f) if isinstance(x, (ast.GeneratorExp, ast.ListComp)) for g_ in x.generators for t_ in g_.ifs
                   if not (isinstance(t_, ast.Compare) and len(t_.ops) == 1 and isinstance(t_.ops[0], ast.IsNot)
                           and isinstance(t_.comparators[0], ast.Constant) and t_.comparators[0].value is None)]
        sliced = [x for x in ast.walk(f) if isinstance(x, ast.Subscript) and isinstance(x.slice, ast.Slice)]
        site = "%s:%s %s" % (m.rel, lp.lineno, q)
        if leaves or filters or sliced:
            bad = (leaves or filters or sliced)[0]
            r.violation(m.rel, q, "`%s` in the batch loop" % norm(ast.unparse(bad))[:60], "not every path of the batch reaches self.%s: the "
                        "books miss files that exist (or keep files that are gone)" % hook, line=getattr(bad, "lineno", lp.lineno))
        else:
            r.ok(site, "every path (every record that could be built) is handed to self.%s" % hook)
    # (b) the re-scan
    cls = "DigitalRFRingbuffer"
    cands = [n for n, fn in m.methods(cls).items() if sum(1 for c in ast.walk(fn) if isinstance(c, ast.Call) and isinstance(c.func, ast.Attribute)
             and c.func.attr in ("add_files", "remove_files", "modify_files")) == 3]
    if len(cands) != 1:
        raise AnalysisError("%s: the re-scan method (calling add_files, remove_files and modify_files) was not found exactly once (%s)" % (cls, cands))
    q = "%s.%s" % (cls, cands[0])
    f = m.fn(q)
    params = [a.arg for a in f.args.args if a.arg != "self"]
    env = {}
    if len(params) != 1:
        raise AnalysisError("%s: expected one parameter (the tracked set)" % q)
    A = params[0]
    B = None

    def sets(e, depth=0):
        """(in A-only, in B-only, in both) membership of the set expression e; None if not a set expression over A and B"""
        if isinstance(e, ast.Name):
            if e.id == A:
                return (True, False, True)
            if e.id == B:
                return (False, True, True)
            if e.id in env and depth < 6:
                return sets(env[e.id], depth + 1)
            return None
        if isinstance(e, ast.Call) and pyfront.call_name(e) in ("set", "frozenset", "sorted", "list") and len(e.args) == 1:
            return sets(e.args[0], depth + 1)
        if isinstance(e, ast.BinOp) and isinstance(e.op, (ast.Sub, ast.BitAnd, ast.BitOr)):
            l_, r_ = sets(e.left, depth + 1), sets(e.right, depth + 1)
            if l_ is None or r_ is None:
                return None
            if isinstance(e.op, ast.Sub):
                return tuple(a and not b for a, b in zip(l_, r_))
            if isinstance(e.op, ast.BitAnd):
                return tuple(a and b for a, b in zip(l_, r_))
            return tuple(a or b for a, b in zip(l_, r_))
        if isinstance(e, ast.Call) and isinstance(e.func, ast.Attribute) and e.func.attr in ("difference", "intersection", "union") and len(e.args) == 1:
            l_, r_ = sets(e.func.value, depth + 1), sets(e.args[0], depth + 1)
            if l_ is None or r_ is None:
                return None
            op = e.func.attr
            return tuple((a and not b) if op == "difference" else (a and b) if op == "intersection" else (a or b) for a, b in zip(l_, r_))
        return None
    for st in f.body:
        if isinstance(st, ast.Assign) and len(st.targets) == 1 and isinstance(st.targets[0], ast.Name):
            v = st.value
            inner = v.args[0] if isinstance(v, ast.Call) and pyfront.call_name(v) in ("set", "frozenset") and len(v.args) == 1 else v
            if isinstance(inner, ast.Call) and (pyfront.call_name(inner) or "").startswith("self.") and B is None and sets(v) is None:
                B = st.targets[0].id          # the files on disk: the result of the handler-filtered listing (R6)
            else:
                env[st.targets[0].id] = v
    if B is None:
        raise AnalysisError("%s: the set of files on disk was not recognised" % q)
    want = {"remove_files": ("removed", lambda t: t == (True, False, False), "exactly the tracked files that are not on disk (A - B)"),
            "add_files": ("added", lambda t: t[1] and not t[0], "every file on disk that is not tracked (covers B - A, inside B)"),
            "modify_files": ("re-examined", lambda t: t[2] and not t[0], "every tracked file that is on disk (covers A & B, inside B)")}
    for c in ast.walk(f):
        if isinstance(c, ast.Call) and isinstance(c.func, ast.Attribute) and c.func.attr in want and c.args:
            what, pred, descr = want[c.func.attr]
            t = sets(c.args[0])
            site = "%s:%s %s `%s`" % (m.rel, c.lineno, q, norm(ast.unparse(c))[:70])
            if t is None:
                raise AnalysisError("%s: the argument of %s is not a set expression over the tracked set and the files on disk" % (q, c.func.attr))
            if pred(t):
                r.ok(site, "%s: %s" % (what, descr))
            else:
                r.violation(m.rel, q, norm(ast.unparse(c))[:70], "after a restart of the observer the set that is %s is not %s (membership for "
                            "tracked-only / on-disk-only / both: %s): the books keep files that are gone, drop files that exist, or miss "
                            "files that appeared while no observer was running" % (what, descr, t), line=c.lineno)
    r.guard(9)
    return r


def r9_restat_replaces_the_record(repo=None):
    """'Its bookkeeping always equals the truth about the files it tracks (... total size)': when a tracked file is reported again,
    the record made from the fresh stat replaces the old one and the total is corrected by the difference - whatever the two sizes
    are.  In the size mixin's modify hook, once the delegate has said "the record exists" (not handled), no test other than the
    delegate's own answer may stand between that point and the replacement: a size comparison there (files only grow ...)
    leaves a shrunk or replaced file at its old size, the total too high, and files are expired although no limit is exceeded."""
    r = Rule("C16.R9", "a re-reported tracked file's new record and size replace the old ones unconditionally (size mixin, modify hook)")
    ro = rbroles.roles(repo)
    m = ro.m
    q = "%s.%s" % (ro.size_mixin, ro.modify)
    f = m.fn(q)
    g = m.cfg(q)
    sup = [n for n in g.nodes if any(pyfront.call_name(c) == "super()." + ro.modify or (pyfront.call_name(c) or "").endswith("." + ro.modify) and "super" in (pyfront.call_name(c) or "")
                                     for c in pyfront.node_calls(n))]
    stores = [n for n in g.nodes if isinstance(n.ast, ast.Assign) and any(
        isinstance(t, ast.Subscript) and norm(ast.unparse(t.value)) == "self.records" for t in n.ast.targets)]
    upd = [n for n in g.nodes if isinstance(n.ast, (ast.AugAssign, ast.Assign)) and "self.active_size" in norm(ast.unparse(
        n.ast.target if isinstance(n.ast, ast.AugAssign) else n.ast.targets[0]))]
    if len(sup) != 1 or not stores or not upd:
        raise AnalysisError("%s: delegate call / record store / size update not found" % q)
    flag = None
    if isinstance(sup[0].ast, ast.Assign) and isinstance(sup[0].ast.targets[0], ast.Name):
        flag = sup[0].ast.targets[0].id
    after = g.reach([b for b, l in g.succ[sup[0].id] if l != "exc"], skip_labels=("exc",))
    before_store = {n.id for n in g.nodes if any(s_.id in g.reach([n.id], skip_labels=("exc",)) for s_ in stores)}
    bad = None
    for cn in g.nodes:
        if cn.kind != "cond" or cn.id not in after or cn.id not in before_store or cn.id == sup[0].id:
            continue
        names = {x.id for x in ast.walk(cn.ast) if isinstance(x, ast.Name)} if cn.ast is not None else set()
        if flag is not None and names <= {flag}:
            continue
        if isinstance(cn.ast, ast.With) or not isinstance(cn.ast, ast.expr):
            continue
        # a test that can send control to the exit without the store
        for lab in ("T", "F"):
            side = g.reach([b for b, l in g.succ[cn.id] if l == lab], avoid=[s_.id for s_ in stores], skip_labels=("exc",))
            if g.exit.id in side or any(x.kind == "return" and x.id in side for x in g.nodes):
                bad = cn
    site = "%s:%s %s" % (m.rel, stores[0].line, q)
    if bad is not None:
        r.violation(m.rel, q, "`%s` before `%s`" % (bad.label[:50], stores[0].label[:40]), "after the delegate found the record, the replacement of "
                    "the record and the correction of the total depend on another test: a file that is reported again with a size that "
                    "fails it (smaller, equal) keeps its old size in the books, the total stays too high and a later file is expired "
                    "although the real total is within the limit", line=bad.line)
    else:
        r.ok(site, "once the delegate reports an existing record, the fresh record replaces it and self.active_size is corrected on every path")
    r.guard(1)
    return r


def r10_every_matched_file_gets_a_record(repo=None):
    """'the ringbuffer bounds the files of every channel it watches': a file can only be expired if it is tracked, and it is tracked
    only if the record builder gets past its regex-group reads.  A `m.group("<name>")` whose IndexError ends in skipping the file
    (handler with `continue` / `return`) is safe only for a group that *every* path regex the handler can register defines; for a
    group that some pattern lacks (the metadata pattern has no fractional part) all files of that kind are silently untracked and
    no limit ever holds for them.  Group tables of the registered regex constants (regex syntax trees) against the group reads of
    the record builder."""
    import re as _re
    r = Rule("C16.R10", "a regex group whose absence makes the record builder skip a file exists in every path pattern the handler registers")
    ro = rbroles.roles(repo)
    m = ro.m
    q = ro.q(ro.make_record)
    f = m.flat(q).fn()
    # the patterns: constants appended to `regexes` in the event handler's constructor, data-file patterns (a `secs` group)
    wm = pyfront.mod("watchdog_drf", repo)
    fold = cfold.Folder(repo)
    pats = {}
    # the path patterns the handler can register: the regex constants of list_drf that watchdog_drf imports and its module uses
    # (appended one by one, or listed in a table the constructor walks)
    imported = {}
    for st in wm.tree.body:
        if isinstance(st, ast.ImportFrom) and (st.module or "").split(".")[-1] == "list_drf":
            for al in st.names:
                imported[al.asname or al.name] = al.name
    used = {x.id for x in ast.walk(wm.tree) if isinstance(x, ast.Name) and isinstance(x.ctx, ast.Load) and x.id in imported}
    used |= {x.attr for x in ast.walk(wm.tree) if isinstance(x, ast.Attribute) and pyfront.dotted(x.value) == "list_drf" and x.attr.startswith("RE_")}
    for nm in sorted(used):
        try:
            v = fold.name("list_drf", imported.get(nm, nm))
        except AnalysisError:
            continue
        if isinstance(v, str):
            try:
                pats[nm] = set(_re.compile(v).groupindex)
            except _re.error:
                continue
    data_pats = {k: v for k, v in pats.items() if "secs" in v}
    if len(data_pats) < 2:
        raise AnalysisError("watchdog_drf: %d data-file patterns with a `secs` group found among the registered constants, 3 confirmed" % len(data_pats))
    par = {}
    for x in ast.walk(f):
        for ch in ast.iter_child_nodes(x):
            par[ch] = x
    n = 0
    for c in ast.walk(f):
        if not (isinstance(c, ast.Call) and isinstance(c.func, ast.Attribute) and c.func.attr == "group" and len(c.args) == 1
                and isinstance(c.args[0], ast.Constant) and isinstance(c.args[0].value, str)):
            continue
        gname = c.args[0].value
        n += 1
        # the try statement whose body holds the call and that catches IndexError
        skipping = None
        x, p_ = c, par.get(c)
        while p_ is not None:
            if isinstance(p_, ast.Try) and any(x is st for st in p_.body):
                for h in p_.handlers:
                    names = ["<any>"] if h.type is None else [pyfront.dotted(h.type)] if not isinstance(h.type, ast.Tuple) else [pyfront.dotted(e) for e in h.type.elts]
                    if any(nm in ("IndexError", "LookupError", "Exception", "<any>") for nm in names):
                        skipping = any(isinstance(y, (ast.Continue, ast.Return)) for st in h.body for y in ast.walk(st))
                        break
                if skipping is not None:
                    break
            x, p_ = p_, par.get(p_)
        lacking = sorted(k for k, v in data_pats.items() if gname not in v)
        site = "%s:%s %s `%s`" % (m.rel, c.lineno, q, norm(ast.unparse(c)))
        if not lacking:
            r.ok(site, "group `%s` is defined by every registered data-file pattern (%s)" % (gname, ", ".join(sorted(data_pats))))
        elif skipping is None:
            raise AnalysisError("%s: `%s` is not inside a try that catches IndexError although %s has no such group: not decided" % (q, norm(ast.unparse(c)), lacking))
        elif skipping:
            r.violation(m.rel, q, norm(ast.unparse(c)), "the pattern(s) %s have no group `%s`; the IndexError of this read is caught by a handler that "
                        "skips the file, so no file matched by those patterns ever gets a record: the files of that kind are not tracked "
                        "and none of the limits (count, duration, size) holds for them" % (", ".join(lacking), gname), line=c.lineno)
        else:
            r.ok(site, "group `%s` is missing from %s, and the handler of its IndexError supplies a default instead of skipping the file" % (
                gname, ", ".join(lacking)))
    if n < 2:
        raise AnalysisError("%s: %d regex-group reads found, 2 confirmed on the reference tree" % (q, n))
    r.guard(2)
    return r


def rules(repo=None):
    return [lambda: r10_every_matched_file_gets_a_record(repo), lambda: r9_restat_replaces_the_record(repo), lambda: r8_events_batches_and_rescan(repo), lambda: r7_moved_file_counted_once(repo), lambda: r6_scan_agrees_with_event_filter(repo), lambda: r1_only_tracked_paths_deleted(repo), lambda: r2_accounting_pairs_with_mutation(repo),
            lambda: r3_oldest_first_and_owners(repo), lambda: r4_limits_reestablished(repo), lambda: r5_growth_rechecks_the_limit(repo)]


EXPLANATION = (
    'R10: every regex group whose IndexError makes _get_file_record skip the file is defined by all data-file patterns the event handler '
    'can register (group tables of the constants); an optional group (frac) must be defaulted, not skipped. '
    'R1: the three mutating calls of ringbuffer.py act on rec.path of a record popped from self.records / its directory; '
    'records are built only in _get_file_record after a regex match with a secs group; the handler is built with '
    'properties excluded and its regexes accept no properties path. R2: for each SizeExpirer override that adjusts '
    'active_size around a super() call, either the base method mutates on every normal-return path or it returns a flag '
    'that is truthy exactly on the mutating paths and the override branches on it; overwriting a tracked record goes '
    'through _modify_record. R3: constant queue subscripts are [0]; queue and record-table mutators appear only in their '
    'owner methods. R4: _add_record reaches _expire on every path; every mixin override delegates to super() on every '
    "path; _expire is a while loop; mixins precede the base in the composed class. R1 also: the handler's regexes accept "
    'no tmp. file name under any directory names. R5: every increase of active_size is followed by the limit enforcement '
    'hook, in the hook itself or in every caller. R6: every ilsdrf listing with a time window whose result reaches a '
    'method of the event handler (flat views: a listing made in a helper is judged where it is used) is used only as the '
    'iterable of a comprehension filtered by <handler>._match_path(path, True). Does NOT decide that the deque insertion '
    'keeps time order. R7: on the CFG of on_moved no call that tracks event.dest_path is reachable before the call that '
    'un-tracks event.src_path (a moved file is never counted twice while the limits are re-established). R8: created / '
    'deleted / modified events hand event.src_path to add_files / remove_files / modify_files unconditionally, each batch'
    ' loop hands every record to its hook (no filter but `is not None`, no break), and the re-scan after an observer '
    'restart removes exactly A - B, adds a set covering B - A inside B and re-examines a set covering A & B (A tracked, B'
    " on disk; set expressions evaluated by truth table). R9: in the size mixin's modify hook, once the delegate has "
    'reported an existing record, the replacement of the record and the correction of self.active_size are reached on '
    'every path - no other test (a size comparison) may send control to the exit first.')
TECHNIQUE = ('Python ast; path-sensitive product analysis of bookkeeping mutations vs returned flag; owner tables for queue/record mutators; MRO/`super()` delegation')
ASSUMPTIONS = ["watchdog delivers events only for paths under the scheduled watch", "deque.remove raises when the element is absent"]
FILES = [RB, "python/digital_rf/list_drf.py", "python/digital_rf/watchdog_drf.py"]
