"""C19 -- Writer bookkeeping matches the recording (partial).

Decides: counters move only after a successful write (C05.R2), the affine invariant written + gaps = next
available sample is preserved by both write methods, the extension returns the C cursor read after the last
sub-call, last file/dir/time survive close.  Not decided: that the C cursor equals one past the highest index.
"""
from __future__ import annotations

import ast
import re

from ..core import Rule, AnalysisError, C_LIB, C_EXT, norm
from .. import cfront, clib, cfg as _cfg, pyfront
from . import c05

RF = "python/digital_rf/digital_rf_hdf5.py"
ATTR = {"_total_samples_written": "S", "_total_gap_samples": "G", "_next_avail_sample": "N"}


class Lin(dict):
    """linear form: symbol -> coefficient ('1' = constant)"""

    def __add__(self, o):
        r = Lin(self)
        for k, v in o.items():
            r[k] = r.get(k, 0) + v
        return Lin({k: v for k, v in r.items() if v != 0})

    def __neg__(self):
        return Lin({k: -v for k, v in self.items()})

    def __sub__(self, o):
        return self + (-o)

    def show(self):
        if not self:
            return "0"
        return " ".join(("%+d*%s" % (v, k)).replace("+1*", "+").replace("-1*", "-") for k, v in sorted(self.items()))


def lin_eval(e, env):
    if isinstance(e, ast.Constant) and isinstance(e.value, int):
        return Lin({"1": e.value}) if e.value else Lin()
    if isinstance(e, ast.Name):
        if e.id in env:
            return env[e.id]
        return None
    if isinstance(e, ast.Attribute):
        d = pyfront.dotted(e)
        if d in env:
            return env[d]
        return None
    if isinstance(e, ast.Subscript):
        d = norm(ast.unparse(e))
        return env.get(d)
    if isinstance(e, ast.BinOp) and isinstance(e.op, (ast.Add, ast.Sub)):
        a, b = lin_eval(e.left, env), lin_eval(e.right, env)
        if a is None or b is None:
            return None
        return a + b if isinstance(e.op, ast.Add) else a - b
    if isinstance(e, ast.UnaryOp) and isinstance(e.op, ast.USub):
        a = lin_eval(e.operand, env)
        return None if a is None else -a
    if isinstance(e, ast.Call) and pyfront.call_name(e) == "int" and len(e.args) == 1:
        return lin_eval(e.args[0], env)
    return None


GETTERS = (("get_total_samples_written", "S"), ("get_total_gap_samples", "G"), ("get_next_available_sample", "N"))


def counter_attrs(m):
    """{attribute: role} - the three counters are whatever the public getters return (`return self.<attr>`)"""
    out = {}
    for g_, role in GETTERS:
        f = m.fn("DigitalRFWriter." + g_)
        rets = [n for n in ast.walk(f) if isinstance(n, ast.Return) and n.value is not None]
        if len(rets) != 1 or not (pyfront.dotted(rets[0].value) or "").startswith("self."):
            raise AnalysisError("DigitalRFWriter.%s: `return self.<counter>` not recognised" % g_)
        out[pyfront.dotted(rets[0].value)[5:]] = role
    if len(out) != 3:
        raise AnalysisError("the three writer counters are not three different attributes: %s" % out)
    # keep the order S, G, N
    return dict(sorted(out.items(), key=lambda kv: "SGN".index(kv[1])))


def r2_affine_invariant(repo=None):
    r = Rule("C19.R2", "samples written + gap samples = next available sample is preserved by every successful write (affine)")
    m = pyfront.mod("digital_rf_hdf5", repo)
    ATTR = counter_attrs(m)
    for q, ext in (("DigitalRFWriter.rf_write", "_py_rf_write_hdf5.rf_write"),
                   ("DigitalRFWriter.rf_write_blocks", "_py_rf_write_hdf5.rf_block_write")):
        fn = m.flat(q).fn()
        # statements after the try that holds the extension call, at the top level of the function body
        idx = None
        rvar = None
        arrname = "arr"
        from .. import pyform
        for i, s in enumerate(fn.body):
            # the try statement itself, or the single-iteration block an inlined helper with the try leaves behind
            if isinstance(s, ast.Try) or (pyform.is_once_block(s) and any(isinstance(x, ast.Try) for x in s.body)):
                for n in ast.walk(s):
                    if isinstance(n, ast.Assign) and isinstance(n.value, ast.Call) and pyfront.call_name(n.value) == ext:
                        idx = i
                        rvar = n.targets[0].id
                        # the data array handed to the extension (second argument, after the channel object)
                        arrname = n.value.args[1].id if len(n.value.args) > 1 and isinstance(n.value.args[1], ast.Name) else "arr"
                        # a local that only carries the argument into an inlined helper stands for the name it was bound to
                        cp = [a for a in fn.body[:i] if isinstance(a, ast.Assign) and len(a.targets) == 1 and isinstance(a.targets[0], ast.Name)
                              and a.targets[0].id == arrname]
                        if len(cp) == 1 and isinstance(cp[0].value, ast.Name) and "__h" in arrname:
                            arrname = cp[0].value.id
        if idx is None:
            raise AnalysisError("%s: extension call %s not found in a try statement" % (q, ext))
        post = fn.body[idx + 1:]
        env = {"self." + a: Lin({s: 1}) for a, s in ATTR.items()}
        env[rvar] = Lin({"r": 1})
        env["%s.shape[0]" % arrname] = Lin({"n": 1})
        env["len(%s)" % arrname] = Lin({"n": 1})
        env["next_sample"] = Lin({"p": 1})
        stores = {a: 0 for a in ATTR}
        ret = None
        bad = None
        for s in post:
            if isinstance(s, ast.Assign) and len(s.targets) == 1:
                t = s.targets[0]
                v = lin_eval(s.value, env)
                key = pyfront.dotted(t)
                if key is None:
                    bad = (s, "unsupported assignment target")
                    break
                if v is None:
                    if key.startswith("self.") or any(key in ast.unparse(x) for x in post):
                        bad = (s, "`%s` is not an affine function of the pre-state counters, the extension's return value, "
                                  "the requested index and the number of samples" % norm(ast.unparse(s.value)))
                        break
                    continue
                env[key] = v
                if key.startswith("self.") and key[5:] in stores:
                    stores[key[5:]] += 1
            elif isinstance(s, ast.AugAssign) and isinstance(s.op, (ast.Add, ast.Sub)):
                key = pyfront.dotted(s.target)
                v = lin_eval(s.value, env)
                if v is None or key not in env:
                    bad = (s, "`%s` is not an affine function of the pre-state counters, the extension's return value, the "
                              "requested index and the number of samples" % norm(ast.unparse(s)))
                    break
                env[key] = env[key] + v if isinstance(s.op, ast.Add) else env[key] - v
                if key.startswith("self.") and key[5:] in stores:
                    stores[key[5:]] += 1
            elif isinstance(s, ast.Return):
                ret = lin_eval(s.value, env) if s.value is not None else None
            elif isinstance(s, ast.Expr) and isinstance(s.value, ast.Constant):
                continue
            else:
                bad = (s, "control flow after the extension call (the update must be straight-line)")
                break
        if bad:
            r.violation(m.rel, q, norm(ast.unparse(bad[0]))[:100], "counter update cannot be verified: %s" % bad[1], line=bad[0].lineno)
            continue
        S2, G2, N2 = (env["self." + a] for a in ATTR)
        resid = (S2 + G2 - N2) - (Lin({"S": 1}) + Lin({"G": 1}) - Lin({"N": 1}))
        site = "%s:%s %s" % (m.rel, fn.lineno, q)
        once = all(v == 1 for v in stores.values())
        if not once:
            r.violation(m.rel, q, "counter stores %s" % stores, "each of the three counters must be stored exactly once per call", line=fn.lineno)
            continue
        if N2 != Lin({"r": 1}):
            r.violation(m.rel, q, "next available sample' = %s" % N2.show(), "the next available sample must become the extension's "
                        "return value (the C cursor)", line=fn.lineno)
            continue
        if S2 != Lin({"S": 1, "n": 1}):
            r.violation(m.rel, q, "samples written' = %s" % S2.show(), "samples written must grow by exactly the number of "
                        "samples in the accepted array", line=fn.lineno)
            continue
        if ret != Lin({"r": 1}):
            r.violation(m.rel, q, "returns %s" % (ret.show() if ret is not None else "?"), "the method must return the new next "
                        "available sample", line=fn.lineno)
            continue
        if not resid:
            r.ok(site, "S' = S+n, G' = %s, N' = r: S'+G'-N' = S+G-N identically" % G2.show())
        elif resid == Lin({"p": 1, "n": 1, "r": -1}):
            r.violation(m.rel, q, "gap samples' = %s" % G2.show(),
                        "the gap is taken from the *requested* index while the next available sample is the value the extension "
                        "*returns* (r): written + gap = next available holds only if r = p + n, and the library does not move its "
                        "cursor for an empty array (n = 0, p beyond the cursor: r stays N, the gap counter grows by p - N although "
                        "no index was skipped); derive the gap from r as the sibling write method does", line=fn.lineno)
        else:
            r.violation(m.rel, q, "S'+G'-N' - (S+G-N) = %s" % resid.show(), "the counter update does not preserve samples written "
                        "+ gap samples = next available sample", line=fn.lineno)
    r.guard(2)
    return r


def _returned_texts(tu, fn, depth=0, keep=()):
    """Source texts (whitespace-free) of the values a function can return, following one level of single-return
    TU helpers (the helper's parameter names are substituted by the call's arguments) and local temporaries."""
    out = []
    g = _cfg.build_c(fn)
    for ret in fn.find("ReturnStmt"):
        if not ret.children:
            continue
        e = ret.children[0].strip(casts=True)
        n = clib.node_of(g, ret)
        for t in clib.expand(fn, g, n.id, e, keep=keep):
            out.append((t, ret))
        if e.kind == "CallExpr" and e.callee in tu.functions and depth < 2:
            callee = tu.functions[e.callee]
            params = [p.name for p in callee.children if p.kind == "ParmVarDecl"]
            for t, _ in _returned_texts(tu, callee, depth + 1, keep):
                for pn, a in zip(params, e.args):
                    t = re.sub(r"(?<![A-Za-z0-9_])%s(?![A-Za-z0-9_])" % re.escape(pn), re.sub(r"\s", "", a.src), t)
                out.append((t, ret))
    return out


def r3_extension_returns_cursor(repo=None):
    r = Rule("C19.R3", "each successful write returns the C library's cursor read after the last library call")
    tu = cfront.ext(repo)
    for fname in (cfront.ext_fn(tu, "rf_write"), cfront.ext_fn(tu, "rf_block_write")):
        fn = tu.fn(fname)
        g = _cfg.build_c(fn)
        libcalls = [c for c in fn.calls(("digital_rf_write_hdf5", "digital_rf_write_blocks_hdf5"))]
        if not libcalls:
            raise AnalysisError("%s: no library write call found" % fname)
        objs = {c.args[0].path() for c in libcalls}
        if len(objs) != 1:
            raise AnalysisError("%s: library calls use different writer objects %s" % (fname, objs))
        obj = objs.pop()
        rets = _returned_texts(tu, fn, keep=(obj,))
        succ = [(t, ret) for t, ret in rets if "Py_BuildValue" in t]
        if not succ:
            raise AnalysisError("%s: no return value built with Py_BuildValue found" % fname)
        ln = [c05._node_of(g, c).id for c in libcalls]
        # a library call inside `for/while (i < X)` that is itself guarded by `X > 1` runs at least once:
        # treat the loop's condition node as passing the call (zero-trip path is infeasible)
        for c in libcalls:
            loops = [a for a in c.ancestors() if a.kind in ("ForStmt", "WhileStmt")]
            if not loops:
                continue
            lp = loops[0]
            cond = lp.children[2] if lp.kind == "ForStmt" else lp.children[0]
            c0 = cond.strip()
            if c0.kind == "BinaryOperator" and c0.opcode == "<":
                bound = c0.children[1].path()
                ctr = c0.children[0].path()
                starts0 = any(p == ctr and rhs is not None and rhs.intval() == 0 for p, n_, rhs, k in clib.stores(fn)) or any(
                    d.name == ctr and d.children and d.children[-1].intval() == 0 for d in fn.find("VarDecl"))
                # every path from the entry to the loop head crosses a branch edge that implies `bound >= 1` (an enclosing if, its
                # else branch, or an early return taken when the bound is small): decided on the CFG, not on the nesting
                def implies(e, lab):
                    e = e.strip()
                    if e.kind == "UnaryOperator" and e.opcode == "!":
                        return implies(e.children[0], "F" if lab == "T" else "T")
                    if e.kind == "BinaryOperator" and e.opcode == "||":
                        return lab == "F" and any(implies(x, "F") for x in e.children)
                    if e.kind == "BinaryOperator" and e.opcode == "&&":
                        return lab == "T" and any(implies(x, "T") for x in e.children)
                    if e.kind == "DeclRefExpr" and e.path() and e.path() != bound:
                        # a named condition: `const int flag = (... && bound > 1);` tested as `flag` / `!flag`
                        ds = [rhs for p_, n_, rhs, k_ in clib.stores(fn) if p_ == e.path() and rhs is not None]
                        ds += [d.children[-1] for d in fn.find("VarDecl") if d.name == e.path() and d.children]
                        if len(ds) == 1 and ds[0].strip().kind in ("BinaryOperator", "UnaryOperator", "ParenExpr"):
                            return implies(ds[0], lab)
                        return False
                    if e.kind == "BinaryOperator" and e.children[0].path() == bound:
                        v = e.children[1].intval()
                        if v is None:
                            return False
                        if lab == "T":
                            return (e.opcode == ">" and v >= 0) or (e.opcode == ">=" and v >= 1)
                        return (e.opcode == "<=" and v >= 0) or (e.opcode == "<" and v >= 1) or (e.opcode == "==" and v == 0)
                    return False
                heads = [n for n in g.nodes if n.kind == "cond" and n.ast is not None and n.ast.begin == c0.begin]
                nodes_by_id = {n.id: n for n in g.nodes}

                def keep_edge(a, b, lab):
                    na = nodes_by_id.get(a)
                    if na is None or na.kind != "cond" or na.ast is None or lab not in ("T", "F"):
                        return True
                    return not implies(na.ast, lab)
                free = g.reach([g.entry.id], edge_filter=keep_edge)
                guarded = bool(heads) and not any(h.id in free for h in heads)
                if guarded and starts0:
                    cn = [n for n in g.nodes if n.kind == "cond" and n.ast is not None and n.ast.begin == c0.begin]
                    ln.extend(x.id for x in cn)
        for t, ret in succ:
            bn = clib.node_of(g, ret)
            dominated = bn.id not in g.reach([g.entry.id], avoid=ln)
            m_ = re.search(r'Py_BuildValue\("(\w+)",(.+?)\)+$', t)
            arg = m_.group(2) if m_ else None
            fmt = m_.group(1) if m_ else None
            want = "%s->global_index" % obj
            if arg is not None and arg.strip("()") == want and fmt == "K" and dominated:
                r.ok("%s:%s %s" % (C_EXT, ret.line, fname), "returns Py_BuildValue(\"K\", %s), dominated by the library write call(s)" % want)
            elif arg is None:
                raise AnalysisError("%s: returned value not recognised: %s" % (fname, t[:80]))
            elif arg.strip("()") == want and fmt == "K" and any(a.kind in ("ForStmt", "WhileStmt", "DoStmt") for c in libcalls for a in c.ancestors()):
                # the right value, and the only way past the library calls is a loop that might not run: whether it can run zero
                # times is a question about values this rule answers only for the guards it recognises
                raise AnalysisError("%s: the return of the cursor at line %d is reached past a loop around the library call whose "
                                    "zero-trip path was not excluded: not decided" % (fname, ret.line))
            else:
                r.violation(C_EXT, fname, "returns Py_BuildValue(\"%s\", %s)" % (fmt, arg), "the value returned to Python is not the library "
                            "cursor `%s` read after the write (dominated by a library call: %s)" % (want, dominated), line=ret.line)
    r.guard(2)
    return r


def r4_last_written_survive_close(repo=None):
    r = Rule("C19.R4", "last file / directory / time written remain available after close")
    m = pyfront.mod("digital_rf_hdf5", repo)
    q = "DigitalRFWriter.close"
    g = m.cfg(q)
    dels = [n for n in g.nodes if isinstance(n.ast, ast.Delete) and "_channelObj" in n.label]
    if not dels:
        raise AnalysisError("close(): `del self._channelObj` not found")
    # who-may-release: only close() - which takes the copies first - lets go of the channel object
    def only_from_close(name, depth=0):
        """a private method all of whose call sites are in close() (or in methods that are themselves only called from close)"""
        if not name.startswith("_") or name.startswith("__") or depth > 3:
            return False
        sites = [(q3, c) for q3, f3 in m.functions.items() if q3.startswith("DigitalRFWriter.") and "<locals>" not in q3
                 for c in ast.walk(f3) if isinstance(c, ast.Attribute) and pyfront.dotted(c.value) == "self" and c.attr == name]
        return bool(sites) and all(q3 == q or only_from_close(q3.split(".")[-1], depth + 1) for q3, c in sites)
    for q2, f2 in m.functions.items():
        if not q2.startswith("DigitalRFWriter.") or "<locals>" in q2 or q2 == q or only_from_close(q2.split(".")[-1]):
            continue
        for x in ast.walk(f2):
            rel = (isinstance(x, ast.Delete) and any(pyfront.dotted(t) == "self._channelObj" for t in x.targets)) or (
                isinstance(x, ast.Call) and pyfront.call_name(x) == "delattr" and len(x.args) == 2 and pyfront.dotted(x.args[0]) == "self"
                and pyfront.const(x.args[1]) == "_channelObj") or (
                isinstance(x, ast.Assign) and any(pyfront.dotted(t) == "self._channelObj" for t in x.targets) and pyfront.const(x.value) is None
                and isinstance(x.value, ast.Constant))
            if rel:
                r.violation(m.rel, q2, norm(ast.unparse(x))[:60], "the channel object is released outside close(), which is where the last file, "
                            "directory and time written are copied for later queries: after this path the getters have neither the "
                            "object nor the copies (they return nothing / raise)", line=x.lineno)
    for getter in ("self.get_last_file_written", "self.get_last_dir_written", "self.get_last_utc_timestamp"):
        gq = "DigitalRFWriter." + getter[5:]
        # the flat view: a helper shared by the three getters (`self._ask(<extension function>, "<attribute>")`) is read in place
        gf = m.flat(gq).fn()
        returned = {x.value.id for x in ast.walk(gf) if isinstance(x, ast.Return) and isinstance(x.value, ast.Name)}

        def cached(e, gf=gf):
            """name X when `e` reads self.X: `self.X`, `getattr(self, "X")`, `getattr(self, n)` with n = "X" assigned once"""
            d = pyfront.dotted(e) or ""
            if d.startswith("self.") and d.count(".") == 1:
                return d[5:]
            if isinstance(e, ast.Call) and pyfront.call_name(e) == "getattr" and len(e.args) == 2 and not e.keywords \
                    and pyfront.dotted(e.args[0]) == "self":
                a = e.args[1]
                if isinstance(a, ast.Name):
                    defs = [y for y in ast.walk(gf) if isinstance(y, ast.Assign) and any(isinstance(t_, ast.Name) and t_.id == a.id for t_ in y.targets)]
                    a = defs[0].value if len(defs) == 1 else a
                if isinstance(a, ast.Constant) and isinstance(a.value, str):
                    return a.value
            return None
        # the fallback attribute: what the getter returns when the channel object is gone
        attr = None
        for tr in [x for x in ast.walk(gf) if isinstance(x, ast.Try)]:
            for h in tr.handlers:
                names = [pyfront.dotted(h.type)] if h.type is not None and not isinstance(h.type, ast.Tuple) else (
                    [pyfront.dotted(e) for e in h.type.elts] if h.type is not None else [])
                if "AttributeError" in names:
                    for x in ast.walk(h):
                        if isinstance(x, ast.Return) and x.value is not None and cached(x.value):
                            attr = cached(x.value)
                        elif isinstance(x, ast.Assign) and len(x.targets) == 1 and isinstance(x.targets[0], ast.Name) \
                                and x.targets[0].id in returned and cached(x.value):
                            attr = cached(x.value)
                    # the handler only swallows the error and the statement after the try returns the cached attribute
                    if attr is None and not any(isinstance(x, (ast.Raise, ast.Return)) for x in ast.walk(h)) and tr in gf.body:
                        after = gf.body[gf.body.index(tr) + 1:]
                        if after and isinstance(after[0], ast.Return) and (pyfront.dotted(after[0].value) or "").startswith("self."):
                            attr = pyfront.dotted(after[0].value)[5:]
        if attr is None:
            # positive evidence only: the channel object is used with no try / hasattr / if around it at all
            guarded = any(isinstance(x, (ast.Try, ast.If, ast.IfExp)) for x in ast.walk(gf)) or any(
                isinstance(x, ast.Call) and pyfront.call_name(x) in ("hasattr", "getattr") for x in ast.walk(gf))
            if guarded:
                raise AnalysisError("%s: how the getter answers once the channel object is gone was not recognised" % gq)
            r.violation(m.rel, gq, "no AttributeError fallback to a cached attribute", "the getter fails after close", line=gf.lineno)
            continue
        r.ok("%s:%s %s" % (m.rel, gf.lineno, gq), "falls back to self.%s when the channel object is gone" % attr)
        st = [n for n in g.nodes if isinstance(n.ast, ast.Assign) and pyfront.dotted(n.ast.targets[0]) == "self." + attr
              and isinstance(n.ast.value, ast.Call) and pyfront.call_name(n.ast.value) == getter]
        if st and not any(d.id in g.reach([g.entry.id], avoid=[x.id for x in st], skip_labels=("exc",)) for d in dels):
            r.ok("%s:%s %s self.%s" % (m.rel, st[0].line, q, attr), "cached from %s() before the channel object is deleted" % getter)
        else:
            r.violation(m.rel, q, "self.%s not cached from %s() before del self._channelObj" % (attr, getter[5:]), "the value is lost "
                        "when the writer is closed", line=dels[0].line)
    tu = cfront.lib(repo)
    for f, allowed in (("basename", {"digital_rf_create_hdf5_file"}), ("sub_directory", {"digital_rf_create_new_directory",
                                                                                         "digital_rf_create_write_hdf5"})):
        st = clib.field_stores(tu, f)
        bad = [x for x in st if x[0] not in allowed]
        if bad:
            r.violation(C_LIB, bad[0][0], bad[0][1].nsrc[:70], "`%s` (last file/dir written) is modified outside file creation" % f,
                        line=bad[0][1].line)
        else:
            r.ok("%s field %s" % (C_LIB, f), "stored only while a new file is being entered (%s)" % sorted(allowed))
    r.guard(8)
    return r


SEARCHES = ("strstr", "strchr", "strrchr", "strpbrk", "strtok", "strcasestr", "memmem", "strsep")
PATH_FIELDS = ("directory", "sub_directory")


def r5_marker_search_on_base_name_only(repo=None):
    """The name a file has once it is finished is <directory>/<sub_directory>/<base name without "tmp.">: the library drops the
    marker by searching the *base name* (strstr(basename, "rf")).  The directory is the user's: a search whose haystack is (or
    was built from) the directory or the sub-directory finds its needle in the path for some directory names ("/tmp/tmp.x/ch",
    "/data/rf/ch") and the reported last file is then a name that never exists.  Provenance of the haystack of every string
    search of the library: the basename field, or a local buffer none of whose writers (strcpy / strcat / snprintf / assignment,
    transitively through other locals) reads a path field; a parameter is followed to the arguments of its callers."""
    r = Rule("C19.R5", "the temporary marker is searched in the base name, never in a string containing the directory")
    tu = cfront.lib(repo)
    callers = {}
    for fname, fn in tu.functions.items():
        for c in fn.calls():
            if c.callee in tu.functions:
                callers.setdefault(c.callee, []).append((fname, c))

    def mentions_path(node):
        return [x.name for x in node.walk() if x.kind == "MemberExpr" and x.name in PATH_FIELDS]

    def tainted_locals(fn):
        """locals (buffers and pointers) of fn that may hold text of a path field"""
        t = {}
        writes = []         # (dest name, [source nodes], node)
        for path, node, rhs, kind in clib.stores(fn):
            if path is None or "->" in path or "." in path:
                continue
            if kind.startswith("call:"):
                writes.append((path, list(node.args[1:]), node))
            elif kind == "=" and rhs is not None:
                writes.append((path, [rhs], node))
        for d in fn.find("VarDecl"):
            if d.children and d.name:
                writes.append((d.name, [d.children[-1]], d))
        changed = True
        while changed:
            changed = False
            for dest, srcs, node in writes:
                if dest in t:
                    continue
                for sn in srcs:
                    why = None
                    # the haystack of a search nested in the source is judged at that search, its result is a piece of the haystack
                    mp = mentions_path(sn)
                    if mp:
                        why = "%s:%s reads ->%s" % (fn.name, node.line, mp[0])
                    else:
                        for x in sn.walk():
                            if x.kind == "DeclRefExpr" and x.name in t:
                                why = "%s:%s reads `%s` (%s)" % (fn.name, node.line, x.name, t[x.name])
                                break
                    if why:
                        t[dest] = why
                        changed = True
                        break
        return t, {w[0] for w in writes}

    def judge(fname, hay, depth=0):
        """None (clean) or a reason (tainted); AnalysisError when the provenance is not known"""
        fn = tu.functions[fname]
        h = hay.strip(casts=True)
        mp = mentions_path(h)
        if mp:
            return "the haystack reads ->%s" % mp[0]
        p = h.path()
        if p is not None and p.endswith("->basename"):
            return None
        if h.kind == "StringLiteral":
            return None
        if p is None or "->" in p or "." in p:
            raise AnalysisError("%s: haystack `%s` of a string search: provenance not recognised" % (fname, h.nsrc[:50]))
        t, written = tainted_locals(fn)
        if p in t:
            return t[p]
        idx = clib.param_index(fn, p)
        if idx is not None and idx >= 0:
            if depth > 3:
                raise AnalysisError("%s: parameter `%s` followed through more than 3 callers" % (fname, p))
            cs = callers.get(fname, [])
            if not cs and p not in written:
                raise AnalysisError("%s: haystack parameter `%s` of an entry point: provenance not known" % (fname, p))
            for cn, c in cs:
                if idx < len(c.args):
                    why = judge(cn, c.args[idx], depth + 1)
                    if why:
                        return "%s <- %s" % (p, why)
            return None
        if p in written:
            return None
        raise AnalysisError("%s: haystack `%s` of a string search is never written in the function" % (fname, p))

    for fname, fn in tu.functions.items():
        for c in fn.calls():
            if c.callee not in SEARCHES or not c.args:
                continue
            why = judge(fname, c.args[0])
            site = "%s:%s %s `%s`" % (C_LIB, c.line, fname, c.nsrc[:60])
            if why:
                r.violation(C_LIB, fname, c.nsrc[:80], "a string search over text that contains the user's directory (%s): for a directory "
                            "that contains the needle the name composed from the result is not the file's name - the reported last file "
                            "written / the finished name does not exist" % why, line=c.line)
            else:
                r.ok(site, "the haystack is the base name (no writer of it reads a path field)")
    r.guard(1)
    return r


def r6_reported_names_are_the_names_used(repo=None):
    """'The reported last file and directory written are those containing the most recently written sample': the library creates,
    renames and removes the file under <directory>/<sub_directory>/<basename> (C02.R1) and reports from the same three fields.
    The text handed back by digital_rf_get_last_dir_written is <directory>/<sub_directory>(/), the text of
    digital_rf_get_last_file_written that directory plus the base name without its tmp. marker - composed in that order from
    those fields and nothing else (string provenance of the returned buffer)."""
    r = Rule("C19.R6", "the reported last directory / file are composed from directory, sub_directory and the published base name")
    tu = cfront.lib(repo)
    want = {"digital_rf_get_last_dir_written": [("<directory>", "/", "<sub_directory>"), ("<directory>", "/", "<sub_directory>", "/")],
            "digital_rf_get_last_file_written": [("<directory>", "/", "<sub_directory>", "/", "strstr(<basename>,'rf')")]}
    for fname, shapes in want.items():
        fn = tu.fn(fname)
        locals_ = {d.name for d in fn.find("VarDecl") if "[" in (d.type or "")}
        # the text returned: the last copy of a local buffer into the malloc'ed result (or the buffer handed to a duplicating helper)
        outs = [c for c in fn.calls() if c.callee in ("strcpy", "strdup", "memcpy", "strncpy") and any(a.path() in locals_ for a in c.args[-2:] if a is not None)
                and not (c.args and c.args[0].path() in locals_)]
        outs += [c for c in fn.calls() if c.callee in tu.functions and any(a.path() in locals_ for a in c.args)
                 and fn.find("ReturnStmt") and any(c.begin >= rt.begin and c.end <= rt.end for rt in fn.find("ReturnStmt"))]
        if not outs:
            raise AnalysisError("%s: the statement that copies the composed path into the result was not recognised" % fname)
        last = sorted(outs, key=lambda c: c.begin)[-1]
        buf = [a.path() for a in last.args if a.path() in locals_][-1]
        pieces, seen = clib.build_string(fn, buf, before=last)
        got = clib.shape(pieces)
        # joined literals: "/" "x" and "/x" are the same text
        def canon(t):
            out = []
            for x in t:
                if out and not out[-1].startswith(("<", "$", "?", "strstr(")) and not x.startswith(("<", "$", "?", "strstr(")):
                    out[-1] += x
                else:
                    out.append(x)
            return tuple(out)
        site = "%s:%s %s" % (C_LIB, last.line, fname)
        if any(x.startswith("?") for x in got):
            raise AnalysisError("%s: composition of the reported path not followed (%s)" % (fname, got))
        if canon(got) in [canon(s_) for s_ in shapes]:
            r.ok(site, "returns %s" % "".join(got))
        else:
            r.violation(C_LIB, fname, "returns %s" % " + ".join(got), "the reported path is not composed as %s: it does not name the %s the writer "
                        "uses for the most recently written sample" % ("".join(shapes[0]), "directory" if "dir" in fname else "file"), line=last.line)
    r.guard(2)
    return r


def r7_getters_hand_the_library_strings_on(repo=None):
    """'The reported last file and directory written are those containing the most recently written sample': the library composes
    them from the directory it was given (R6).  The Python getters hand that text on - they return the extension's result or the
    copy close() took of it.  A path function applied on the way (normpath collapses `x/..` lexically, which names another
    directory when x is a symbolic link; abspath / realpath re-root it) reports a path the writer never used."""
    r = Rule("C19.R7", "get_last_file_written / get_last_dir_written return the extension's text (or its cached copy) unchanged")
    m = pyfront.mod("digital_rf_hdf5", repo)
    n_ret = 0
    for getter in ("get_last_file_written", "get_last_dir_written"):
        q = "DigitalRFWriter." + getter
        # the flat view: a helper shared by the getters is read in place; a name assigned on several paths has several origins
        f = m.flat(q).fn()
        env = {}
        for a in ast.walk(f):
            if isinstance(a, ast.Assign) and len(a.targets) == 1 and isinstance(a.targets[0], ast.Name):
                env.setdefault(a.targets[0].id, []).append(a.value)

        def origins(e, depth=0, seen=()):
            """set of 'ext' | 'cache' | ('wrapped', function) | None (not recognised)"""
            if isinstance(e, ast.Name) and e.id in env and e.id not in seen and len(seen) < 4:
                out = set()
                for v_ in env[e.id]:
                    if isinstance(v_, ast.Constant) and v_.value is None and e.id.startswith("__inl"):
                        continue        # the inliner's "helper fell off its end" arm
                    out |= origins(v_, depth, seen + (e.id,))
                return out
            if isinstance(e, ast.Call) and (pyfront.call_name(e) or "").startswith("_py_rf_write_hdf5."):
                return {"ext"}
            if (pyfront.dotted(e) or "").startswith("self.") and not isinstance(e, ast.Call):
                return {"cache"}
            if isinstance(e, ast.Call) and pyfront.call_name(e) == "getattr" and len(e.args) == 2 and pyfront.dotted(e.args[0]) == "self":
                return {"cache"}
            if isinstance(e, ast.Call) and depth < 3:
                inner = set()
                for a_ in list(e.args) + [k.value for k in e.keywords]:
                    inner |= origins(a_, depth + 1, seen)
                if isinstance(e.func, ast.Attribute) and not (pyfront.call_name(e) or "").startswith(("os.", "self.")):
                    inner |= origins(e.func.value, depth + 1, seen)        # method call on the text: path.rstrip("/")
                if any(x is not None for x in inner):
                    return {("wrapped", pyfront.call_name(e) or norm(ast.unparse(e.func)))}
            return {None}
        for rt in [x for x in ast.walk(f) if isinstance(x, ast.Return) and x.value is not None]:
            site = "%s:%s %s `%s`" % (m.rel, rt.lineno, q, norm(ast.unparse(rt))[:70])
            for o in sorted(origins(rt.value), key=repr):
                n_ret += 1
                if o == "ext":
                    r.ok(site + " [ext]", "the extension's result as it is")
                elif o == "cache":
                    r.ok(site + " [cache]", "the copy close() took")
                elif isinstance(o, tuple):
                    r.violation(m.rel, q, norm(ast.unparse(rt))[:80], "the path reported is not the library's text but `%s` of it: a lexical or "
                                "file-system normalisation names another file than the one holding the last written sample when the channel "
                                "directory is reached through a symbolic link and `..`" % o[1], line=rt.lineno)
                else:
                    raise AnalysisError("%s: returned expression `%s` not recognised" % (q, norm(ast.unparse(rt.value))[:60]))
    if n_ret < 4:
        raise AnalysisError("getters: %d return statements found, 4 confirmed on the reference tree" % n_ret)
    r.guard(4)
    return r


def rules(repo=None):
    def r1():
        x = c05.r2_validate_before_effect_py(repo)
        x.rid = "C19.R1"
        for f in x.findings:
            f.rule = "C19.R1"
        return x
    return [r1, lambda: r2_affine_invariant(repo), lambda: r3_extension_returns_cursor(repo),
            lambda: r4_last_written_survive_close(repo), lambda: r5_marker_search_on_base_name_only(repo), lambda: r6_reported_names_are_the_names_used(repo), lambda: r7_getters_hand_the_library_strings_on(repo), lambda: c05.r7_cursor_has_one_owner(repo, rid="C19.R8")]


EXPLANATION = (
    'R1: counters are stored only after the extension call returned normally (C05.R2). R2: the straight-line update after'
    " the extension call is evaluated symbolically as linear forms over the pre-state (S, G, N), the extension's return "
    "value r, the requested index p and the sample count n; required: S' = S+n, N' = r, return r, each counter stored "
    "once, and S'+G'-N' = S+G-N *identically* in both write methods (a gap taken from the requested index p instead of "
    'the returned cursor r leaves the residual p+n-r, which is non-zero for an empty array written ahead of the cursor: '
    'reported). R3: both extension wrappers return hdf5_write_data_object->global_index read after the last library call.'
    ' R4: close() caches the three values before deleting the channel object and the getters fall back to them; the C '
    'fields are stored only during file creation. R5: provenance of the haystack of every string search of the library '
    '(strstr and relatives): the base name, or a local buffer none of whose writers reads the directory / sub_directory '
    "fields (followed through locals and to the callers' arguments) - a search for the temporary marker over the whole "
    "path finds it in the user's directory for some directory names, and the reported last file is then a name that never"
    ' exists. R6: string provenance of the text returned by digital_rf_get_last_dir_written / '
    'digital_rf_get_last_file_written: <directory>/<sub_directory>(/) and that plus the base name without tmp. R7: the '
    "Python getters return the extension's text or the copy close() took, never a function of it. R8 (= C05.R7): the C cursor "
    'from which the next-sample position and the gap counter are derived is stored only by its owners (constructor, per-file '
    'write step) - a public write function that sets it moves the position past samples nobody wrote. Does NOT decide the '
    'value of the C cursor.')
TECHNIQUE = ('Python ast + clang JSON AST; symbolic linear forms of the counter updates; ordering relative to the extension call; def-use of cached values')
ASSUMPTIONS = ["the extension's return value is the library's cursor (R3); its value is not decided"]
FILES = [RF, C_EXT, C_LIB]
