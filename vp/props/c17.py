"""C17 -- Mirror fidelity, staged publication and no loss in move mode (partial).

Decides: files appear under their final destination name only by rename of a staged tmp. copy; who may touch the
staged copy; stale/duplicate events are contained; the handler configuration table (what is moved, copied,
ring-buffered in every mode); existing files are replayed through the same handlers.
Not decided: byte identity of copies, crash points inside shutil.move across file systems.
"""
from __future__ import annotations

import ast
import itertools

from ..core import Rule, AnalysisError, norm
from .. import pyfront, pycalls, dtable, cfold, rx, pyutil

MR = "python/digital_rf/mirror.py"
HD = "DigitalRFMirrorHandler"
MI = "DigitalRFMirror"


def _mutating(n):
    """(call, kind) for calls in CFG node n that change the file system (including the injected mirror function)."""
    out = []
    for c in pyfront.node_calls(n):
        d = pyfront.call_name(c) or ""
        if d in pycalls.MUTATORS or d == "self.mirror_fun":
            out.append((c, d))
        elif d == "open" and pyfront.const(pyfront.kwarg(c, "mode", 1)) not in (None, "r", "rb"):
            out.append((c, d))
    return out


def r1_staged_publication(repo=None):
    """Roles, on mirror_to_dest with its private helpers inlined: the staging call self.mirror_fun(src, T), the publishing
    os.rename(T, D); T must be join(dir(D), 'tmp.' + name(D)); every other file-system operation must be makedirs(dir(D)) or
    rmdir(dir(src))."""
    r = Rule("C17.R1", "a file reaches its final destination name only by rename of a complete staged tmp. copy (must-pass + rx)")
    m = pyfront.mod("mirror", repo)
    q = HD + ".mirror_to_dest"
    fvw = m.flat(q).dealiased()
    f = fvw.fn()
    g = fvw.cfg()
    srcp = f.args.args[1].arg if len(f.args.args) > 1 else None
    if srcp is None:
        raise AnalysisError("%s: source path parameter not found" % q)
    stage_calls = [c for c in ast.walk(f) if isinstance(c, ast.Call) and pyfront.call_name(c) == "self.mirror_fun"]
    renames = [c for c in ast.walk(f) if isinstance(c, ast.Call) and pyfront.call_name(c) in ("os.rename", "os.replace")]

    def single_def(name):
        ds = [n for n in ast.walk(f) if isinstance(n, ast.Assign) and any(
            isinstance(t, ast.Name) and t.id == name for t in n.targets)]
        return ds[0].value if len(ds) == 1 else None

    def dir_and_name_of(path_name):
        """names bound to (directory, base name) of the path variable"""
        dirs, names = set(), set()
        for n in ast.walk(f):
            if isinstance(n, ast.Assign) and isinstance(n.value, ast.Call) and n.value.args and isinstance(n.value.args[0], ast.Name) \
                    and n.value.args[0].id == path_name:
                cn = pyfront.call_name(n.value)
                t = n.targets[0]
                if cn == "os.path.split" and isinstance(t, ast.Tuple) and len(t.elts) == 2:
                    if isinstance(t.elts[0], ast.Name):
                        dirs.add(t.elts[0].id)
                    if isinstance(t.elts[1], ast.Name):
                        names.add(t.elts[1].id)
                elif cn == "os.path.dirname" and isinstance(t, ast.Name):
                    dirs.add(t.id)
                elif cn == "os.path.basename" and isinstance(t, ast.Name):
                    names.add(t.id)
            if isinstance(n, ast.Assign) and isinstance(n.value, ast.Subscript) and isinstance(n.value.value, ast.Call) \
                    and pyfront.call_name(n.value.value) == "os.path.split" and n.value.value.args \
                    and isinstance(n.value.value.args[0], ast.Name) and n.value.value.args[0].id == path_name \
                    and isinstance(n.targets[0], ast.Name) and pyfront.const(n.value.slice) in (0, 1):
                (dirs if pyfront.const(n.value.slice) == 0 else names).add(n.targets[0].id)
        dirs |= {"os.path.dirname(%s)" % path_name, "os.path.split(%s)[0]" % path_name}
        names |= {"os.path.basename(%s)" % path_name, "os.path.split(%s)[1]" % path_name}
        return dirs, names
    tvar = destp = None
    if len(stage_calls) == 1 and len(stage_calls[0].args) == 2 and isinstance(stage_calls[0].args[1], ast.Name):
        tvar = stage_calls[0].args[1].id
    if len(renames) == 1 and len(renames[0].args) == 2 and isinstance(renames[0].args[1], ast.Name):
        destp = renames[0].args[1].id
    if tvar is None or destp is None:
        if stage_calls and not renames:
            r.violation(m.rel, q, "%d staging calls / %d publishing renames" % (len(stage_calls), len(renames)), "the stage-then-rename pair is "
                        "missing", line=f.lineno)
            return r
        raise AnalysisError("%s: staging call / publishing rename not recognised (%d calls of self.mirror_fun, %d renames; their path "
                            "arguments must be plain locals)" % (q, len(stage_calls), len(renames)))
    ddirs, dnames = dir_and_name_of(destp)
    sdirs, _ = dir_and_name_of(srcp)
    v = single_def(tvar)
    prefix = None
    shape = False
    def two_parts(e):
        """(prefix expression, name expression) of `P + N`, f"{P}{N}" / f"tmp.{N}" """
        if isinstance(e, ast.BinOp) and isinstance(e.op, ast.Add):
            return e.left, e.right
        if isinstance(e, ast.JoinedStr) and len(e.values) == 2 and isinstance(e.values[1], ast.FormattedValue) and e.values[1].format_spec is None \
                and e.values[1].conversion == -1:
            first = e.values[0]
            if isinstance(first, ast.Constant):
                return first, e.values[1].value
            if isinstance(first, ast.FormattedValue) and first.format_spec is None and first.conversion == -1:
                return first.value, e.values[1].value
        if isinstance(e, ast.JoinedStr) and len(e.values) > 2 and isinstance(e.values[-1], ast.FormattedValue) and e.values[-1].format_spec is None \
                and e.values[-1].conversion == -1:
            # f"tmp{<something>}.{name}": everything in front of the name is the prefix
            return ast.JoinedStr(values=list(e.values[:-1])), e.values[-1].value
        return None

    def const_text(e):
        """the string a prefix expression stands for: a literal, a module constant, a class-level constant (self.X / cls.X / Class.X)"""
        if isinstance(e, ast.Constant) and isinstance(e.value, str):
            return e.value
        d = pyfront.dotted(e) or ""
        if "." in d and d.count(".") == 1:
            attr = d.split(".")[1]
            vals = [b.value for c_ in m.tree.body if isinstance(c_, ast.ClassDef) for b in c_.body if isinstance(b, ast.Assign)
                    and any(isinstance(t, ast.Name) and t.id == attr for t in b.targets)]
            if len(vals) == 1 and isinstance(vals[0], ast.Constant) and isinstance(vals[0].value, str):
                return vals[0].value
            return None
        try:
            val = cfold.Folder(repo).expr("mirror", e)
        except AnalysisError:
            return None
        return val if isinstance(val, str) else None
    parts = None
    if isinstance(v, ast.Call) and pyfront.call_name(v) == "os.path.join" and len(v.args) == 2:
        parts = two_parts(v.args[1])
    if parts is not None:
        prefix = const_text(parts[0])
        shape = isinstance(v.args[0], ast.Name) and v.args[0].id in ddirs and isinstance(parts[1], ast.Name) and parts[1].id in dnames
    tdef = [n for n in ast.walk(f) if isinstance(n, ast.Assign) and any(isinstance(t, ast.Name) and t.id == tvar for t in n.targets)]
    if prefix == "tmp." and shape:
        r.ok("%s:%s %s" % (m.rel, tdef[0].lineno, q), "staging path = <destination directory> / ('tmp.' + <destination name>)")
    elif parts is not None and shape and prefix is None and any(isinstance(x, ast.Call) for x in ast.walk(parts[0])):
        r.violation(m.rel, q, norm(ast.unparse(tdef[0])) if tdef else "staging path `%s`" % tvar, "the prefix of the staging name is computed at run "
                    "time (`%s`), so it is not the literal `tmp.` that listings, readers and event filters hide: a partial copy is seen as a "
                    "data file of the destination" % norm(ast.unparse(parts[0]))[:50], line=tdef[0].lineno if tdef else f.lineno)
    elif parts is None or prefix is None or not shape:
        # how the staging name is composed was not followed: that is not evidence of a wrong name
        raise AnalysisError("%s: the staging path `%s` was not resolved to <destination directory> / (<constant prefix> + <destination name>)" % (
            q, norm(ast.unparse(tdef[0]))[:80] if tdef else tvar))
    else:
        r.violation(m.rel, q, norm(ast.unparse(tdef[0])) if tdef else "staging path `%s`" % tvar, "the staging name is not the destination "
                    "name with the literal prefix `tmp.`: readers/listings of the destination could see the partial copy",
                    line=tdef[0].lineno if tdef else f.lineno)
    stage = []
    publish = []
    for n in g.nodes:
        for c, d in _mutating(n):
            args = tuple(norm(ast.unparse(a)) for a in c.args)
            ok_op = (d == "self.mirror_fun" and args == (srcp, tvar)) or (d in ("os.rename", "os.replace") and args == (tvar, destp)) \
                or (d == "os.makedirs" and len(args) >= 1 and args[0] in ddirs) or (d == "os.rmdir" and len(args) == 1 and args[0] in sdirs)
            if ok_op:
                if d == "self.mirror_fun":
                    stage.append(n)
                elif d in ("os.rename", "os.replace"):
                    publish.append(n)
                r.ok("%s:%s %s `%s`" % (m.rel, c.lineno, q, norm(ast.unparse(c))), "expected file-system operation of the mirror step")
            else:
                r.violation(m.rel, q, norm(ast.unparse(c)), "an additional file-system operation on the source, the staged copy or the "
                            "destination: in move mode the staged tmp. file can be the only copy of the data, and the final name must "
                            "only ever be written by the rename", line=c.lineno)
    if len(stage) != 1 or len(publish) != 1:
        r.violation(m.rel, q, "%d staging calls / %d publishing renames" % (len(stage), len(publish)), "the stage-then-rename pair is missing",
                    line=f.lineno)
    else:
        if publish[0].id in g.reach([g.entry.id], avoid=[stage[0].id], skip_labels=("exc",)):
            r.violation(m.rel, q, "os.rename reachable without mirror_fun", "the rename can publish a tmp. file that was not written by "
                        "this step", line=publish[0].line)
        else:
            r.ok("%s:%s %s" % (m.rel, publish[0].line, q), "os.rename(tmp, final) is preceded on every path by mirror_fun(src, tmp)")
    fo = cfold.Folder(repo)
    sp = rx.Space({n: fo.name("list_drf", n) for n in ("_RE_FILE", "_RE_PROPFILE")} | {"TMP": r"tmp\."}, texts=["tmp."])
    for n in ("_RE_FILE", "_RE_PROPFILE"):
        w = (sp[n] & sp["TMP"]).witness()
        if w is None:
            r.ok("list_drf.%s" % n, "no tmp.-prefixed name is in the listing/event grammar (staged copies are invisible)")
        else:
            r.violation("python/digital_rf/list_drf.py", "-", n, "a staged copy would be visible (witness %r)" % w)
    r.guard(8)
    return r


def _mirrors(m, q):
    """(paths handed to self.mirror_to_dest unconditionally, other calls that change the file system) in the event callback q
    with its private helpers inlined; a path is given as source text with the once-assigned local it went through resolved"""
    f = m.flat(q).dealiased().fn()
    body = [x for x in f.body if not (isinstance(x, (ast.Expr, ast.Pass)) and (isinstance(x, ast.Pass) or isinstance(x.value, ast.Constant)))]
    defs = {}
    for x in body:
        if isinstance(x, ast.Assign) and len(x.targets) == 1 and isinstance(x.targets[0], ast.Name):
            defs.setdefault(x.targets[0].id, []).append(x.value)
    mirrored = []
    for x in body:
        if isinstance(x, ast.Expr) and isinstance(x.value, ast.Call) and pyfront.call_name(x.value) == "self.mirror_to_dest" and len(x.value.args) == 1:
            a = x.value.args[0]
            if isinstance(a, ast.Name) and len(defs.get(a.id, [])) == 1:
                a = defs[a.id][0]
            mirrored.append(norm(ast.unparse(a)))
    extra = [c for c in ast.walk(f) if isinstance(c, ast.Call) and (pyfront.call_name(c) or "") in pycalls.MUTATORS]
    nested = [c for c in ast.walk(f) if isinstance(c, ast.Call) and pyfront.call_name(c) == "self.mirror_to_dest"]
    if len(nested) != len(mirrored):
        extra = extra + [c for c in nested]          # a conditional mirror call is not the plain callback the rule knows
    return mirrored, extra


def r2_errors_contained(repo=None):
    r = Rule("C17.R2", "stale, late and duplicate events are contained (errors of the mirror step are caught)")
    m = pyfront.mod("mirror", repo)
    q = HD + ".mirror_to_dest"
    fvw = m.flat(q).dealiased()
    f = fvw.fn()
    n_mut = 0
    for c in pyfront.walk_no_nested(f):
        if isinstance(c, ast.Call) and ((pyfront.call_name(c) or "") in pycalls.MUTATORS or pyfront.call_name(c) == "self.mirror_fun"
                                        or pyfront.call_name(c) == "filecmp.cmp"):
            n_mut += 1
            tr = fvw.enclosing(c, (ast.Try,))
            ok = False
            while tr is not None and not any(c in list(ast.walk(s)) for s in tr.body):
                tr = fvw.enclosing(tr, (ast.Try,))
            if tr is not None and any(c in list(ast.walk(s)) for s in tr.body):
                for h in tr.handlers:
                    names = [pyfront.dotted(h.type)] if h.type is not None and not isinstance(h.type, ast.Tuple) else (
                        [pyfront.dotted(e) for e in h.type.elts] if h.type is not None else ["*"])
                    if any(x in ("OSError", "EnvironmentError", "Exception", "*") for x in names) and not any(
                            isinstance(x, ast.Raise) for x in ast.walk(h)):
                        ok = True
            # `with contextlib.suppress(OSError): ...` is try/except OSError: pass
            wt = fvw.enclosing(c, (ast.With,))
            while wt is not None and not ok:
                for it in wt.items:
                    ce = it.context_expr
                    if isinstance(ce, ast.Call) and pyfront.call_name(ce) in ("contextlib.suppress", "suppress") and any(
                            pyfront.dotted(a) in ("OSError", "EnvironmentError", "Exception") for a in ce.args) \
                            and any(c in list(ast.walk(s_)) for s_ in wt.body):
                        ok = True
                wt = fvw.enclosing(wt, (ast.With,))
            site = "%s:%s %s `%s`" % (m.rel, c.lineno, q, norm(ast.unparse(c))[:60])
            if ok:
                r.ok(site, "inside try/except OSError that does not re-raise (an event for a vanished source file is harmless)")
            else:
                r.violation(m.rel, q, norm(ast.unparse(c))[:80], "a file-system operation of the mirror step is outside the OSError "
                            "handler: a stale or duplicate event stops the mirror thread", line=c.lineno)
    if n_mut < 3:
        raise AnalysisError("%s: %d file-system operations found, 5 confirmed" % (q, n_mut))
    meths = set(m.methods(HD))
    # a deletion in the source never changes the destination; a move may only be handled as "the new name is a file to mirror"
    bad_over = []
    if "on_deleted" in meths:
        bad_over.append("on_deleted")
    moved_ok = None
    if "on_moved" in meths:
        mirrored, extra = _mirrors(m, HD + ".on_moved")
        if mirrored == ["event.dest_path"] and not extra:
            moved_ok = True
        else:
            bad_over.append("on_moved")
    if bad_over:
        r.violation(m.rel, HD, "overrides %s" % sorted(bad_over), "deleting or moving a source file would change "
                    "the destination", line=m.cls(HD).lineno)
    elif moved_ok:
        r.ok("%s:%s %s" % (m.rel, m.fn(HD + ".on_moved").lineno, HD), "on_deleted is not overridden; on_moved only mirrors the new name "
             "(nothing is ever removed from the destination)")
    else:
        # without on_moved a file announced by a moved event onto a matching name (what a polling observer reports when a new file
        # re-uses the inode of a deleted one) is never mirrored, while the move-mode ringbuffer tracks it and deletes it later
        r.violation(m.rel, HD, "no on_moved",
                    "a file that is announced by a `moved` event onto a matching name is ignored by the mirror handler although the "
                    "ringbuffer handler of move mode tracks it (its on_moved adds the new name) and later deletes it: with a polling "
                    "observer a new metadata file that re-uses the inode of a deleted one is reported exactly so, and is lost "
                    "without ever being copied", line=m.cls(HD).lineno)
    for name in ("on_created", "on_modified"):
        if name not in meths:
            # not overridden: the base classes (watchdog's handler, DigitalRFEventHandler) do nothing for this event kind
            wd = pyfront.mod("watchdog_drf", repo)
            if name in wd.methods("DigitalRFEventHandler"):
                raise AnalysisError("%s.%s is inherited from DigitalRFEventHandler: not followed" % (HD, name))
            r.violation(m.rel, HD, "no %s" % name, "%s events are not mirrored: a file that is %s (a Digital Metadata file is appended to in "
                        "place; a polling observer reports nothing but created / modified / moved / deleted) keeps its first copy in the "
                        "destination - and in move mode the count=1 metadata ringbuffer deletes the newer source all the same" % (
                            name[3:], "written to after its first copy" if name == "on_modified" else "created"), line=m.cls(HD).lineno)
            continue
        mirrored, extra = _mirrors(m, HD + "." + name)
        if "event.src_path" in mirrored:
            r.ok("%s %s.%s" % (m.rel, HD, name), "mirrors event.src_path")
        else:
            r.violation(m.rel, HD + "." + name, "handler body", "created/modified events are not mirrored", line=m.fn(HD + "." + name).lineno)
    r.guard(8)
    return r


def config_table(repo=None):
    m = pyfront.mod("mirror", repo)
    f = m.fn(MI + ".__init__")
    body = [s for s in f.body if not (isinstance(s, ast.Expr) and isinstance(s.value, ast.Constant))]
    consts = {}
    for st in m.tree.body:
        if isinstance(st, ast.Assign) and isinstance(st.targets[0], ast.Name):
            v = st.value
            if isinstance(v, (ast.Tuple, ast.List)) and all(isinstance(e, ast.Constant) for e in v.elts):
                consts[st.targets[0].id] = [e.value for e in v.elts]
            elif isinstance(v, ast.Constant):
                consts[st.targets[0].id] = v.value
    # private helpers of the constructor are evaluated abstractly, except those that start the observer
    def starts_observer(fn_):
        return any(isinstance(c, ast.Call) and (pyfront.call_name(c) or "").endswith("DirWatcher") for c in ast.walk(fn_))
    methods = {k: v for k, v in m.methods(MI).items() if k.startswith("_") and k != "__init__" and not starts_observer(v)}
    observer_helpers = {"self." + k for k, v in m.methods(MI).items() if starts_observer(v) and k != "__init__"}
    rows = {}
    for method, idrf, idmd, link in itertools.product(("move", "copy", "link"), (True, False), (True, False), (True, False)):
        it = dtable.Interp({"src": "S", "dest": "D", "method": method, "ignore_existing": False, "link": link, "verbose": False,
                            "starttime": None, "endtime": None, "include_drf": idrf, "include_dmd": idmd, "force_polling": False},
                           consts=consts, methods=methods, module=m)
        it.record = {"DigitalRFMirrorHandler", "ringbuffer.DigitalRFRingbufferHandler"}
        it.run(body, stop_at=lambda s: (isinstance(s, ast.Expr) and isinstance(s.value, ast.Call) and pyfront.call_name(s.value) in observer_helpers)
               or any(isinstance(c, ast.Call) and (pyfront.call_name(c) or "").endswith("DirWatcher") for c in ast.walk(s)))
        rows[(method, idrf, idmd, link)] = (it.built, it.raised, dict(it.env))
    return m, f, rows


def r3_handler_configuration(repo=None):
    r = Rule("C17.R3", "in every mode RF data is handled by exactly one handler, only RF data is ever moved, properties and metadata are copied (dtable)")
    m, f, rows = config_table(repo)
    bad = 0
    n = 0
    for (method, idrf, idmd, link), (built, raised, env) in sorted(rows.items(), key=str):
        n += 1
        row = "method=%s include_drf=%s include_dmd=%s link=%s" % (method, idrf, idmd, link)
        if not idrf and not idmd:
            if not raised:
                bad += 1
                r.violation(m.rel, MI + ".__init__", row, "nothing to mirror but no error", line=f.lineno)
            continue
        eff_method = env.get("self.method")
        mh = [(name, kw, node) for name, callee, kw, node in built if callee == "DigitalRFMirrorHandler"]
        rb = [(name, kw, node) for name, callee, kw, node in built if callee.endswith("DigitalRFRingbufferHandler")]
        probs = []
        def fun(kw):
            v = kw.get("mirror_fun")
            return v[1] if isinstance(v, tuple) else v
        # a verdict needs the evaluated keyword values: a handler whose flags (or a ringbuffer whose limits) were not evaluated
        # - built through a table, functools.partial, ** of an unresolved mapping - is not judged
        for name_, kw_, node_ in mh:
            unk = [k_ for k_ in ("include_drf", "include_dmd", "include_drf_properties", "include_dmd_properties") if not isinstance(kw_.get(k_), bool)]
            if unk:
                raise AnalysisError("%s.__init__ (%s): flags %s of a mirror handler were not evaluated to constants" % (MI, row, unk))
        for name_, kw_, node_ in rb:
            if not isinstance(kw_.get("count"), int) or not isinstance(kw_.get("include_drf"), bool) or not isinstance(kw_.get("include_dmd"), bool):
                raise AnalysisError("%s.__init__ (%s): arguments of the metadata ringbuffer were not evaluated to constants (%s)" % (MI, row, kw_))
        rf_handlers = [h for h in mh if h[1].get("include_drf") is True]
        if idrf and len(rf_handlers) != 1:
            probs.append("RF files are in the language of %d handlers (must be exactly one, else a file is copied and moved / not mirrored)" % len(rf_handlers))
        if not idrf and rf_handlers:
            probs.append("RF files mirrored although include_drf is False")
        movers = [h for h in mh if fun(h[1]) == "shutil.move"]
        for name, kw, node in movers:
            if not (kw.get("include_drf") is True and kw.get("include_dmd") is False and kw.get("include_drf_properties") is False
                    and kw.get("include_dmd_properties") is False):
                probs.append("the moving handler also matches metadata or properties files (%s): they would disappear from the source" % {
                    k: v for k, v in kw.items() if k and k.startswith("include")})
        if eff_method == "move" and idrf and len(movers) != 1:
            probs.append("move mode without exactly one moving RF handler")
        if eff_method != "move" and movers:
            probs.append("a moving handler exists in %s mode (source must stay unchanged)" % eff_method)
        copiers = [h for h in mh if fun(h[1]) != "shutil.move"]
        if len(copiers) != 1:
            probs.append("%d copy-like handlers" % len(copiers))
        else:
            kw = copiers[0][1]
            if kw.get("include_drf_properties") is not idrf or kw.get("include_dmd_properties") is not idmd or kw.get("include_dmd") is not idmd:
                probs.append("properties/metadata of the included kinds are not copied (copy handler flags %s)" % {
                    k: v for k, v in kw.items() if k and k.startswith("include")})
            if fun(kw) in ("shutil.move", "os.rename", "os.replace", "os.remove", "os.unlink"):
                probs.append("copy handler uses %s (expected shutil.copy2 or the hard-link-with-fallback function)" % fun(kw))
            elif fun(kw) not in ("shutil.copy2", "LinkWithFallback()", "_LinkWithFallback()", "copylike_mirror_fun"):
                raise AnalysisError("%s.__init__ (%s): the function of the copy handler, `%s`, is not one this rule knows (shutil.copy2 or the "
                                    "callable hard-link-with-fallback class)" % (MI, row, fun(kw)))
            if str(fun(kw)).endswith("LinkWithFallback()") and env.get("self.link") is not True:
                probs.append("hard links used although link mode is off")
        if eff_method == "move" and idmd:
            if len(rb) != 1 or rb[0][1].get("count") != 1 or rb[0][1].get("include_drf") is not False or rb[0][1].get("include_dmd") is not True \
                    or rb[0][1].get("dryrun") is not False:
                probs.append("move mode must keep exactly the newest metadata file in the source (ringbuffer count=1, include_drf=False): got %s" % (
                    [x[1] for x in rb]))
        elif rb:
            probs.append("a ringbuffer deletes source files outside move mode")
        if env.get("self.link") is True and env.get("copylike_mirror_fun") not in (("obj", "copylike_mirror_fun"),) and eff_method in ("link",):
            pass
        if probs:
            bad += 1
            r.violation(m.rel, MI + ".__init__", row + ": " + probs[0][:120], "; ".join(probs), line=f.lineno)
    if n != 24:
        raise AnalysisError("expected 24 configuration rows, evaluated %d" % n)
    if not bad:
        r.ok("%s:%s %s.__init__" % (m.rel, f.lineno, MI), "all 24 rows (method x include_drf x include_dmd x link): RF data in exactly one "
             "handler; shutil.move only with include_dmd=False and both properties flags False; properties and metadata copied; "
             "move mode keeps the newest metadata file via a count=1 ringbuffer")
    r.guard(1)
    return r


def r4_replay_existing(repo=None):
    r = Rule("C17.R4", "files that already exist are replayed through the same handlers")
    m = pyfront.mod("mirror", repo)
    q = MI + ".start"
    fvw = m.flat(q).dealiased()
    f = fvw.fn()
    scope = [f] + [h for h, c, b in pyutil.local_helpers(m, m.fn(q), depth=1) if h.name not in fvw.inlined]
    # a loop over self.event_handlers that dispatches a FileCreatedEvent with match_time=False
    disp = []
    def _iter_text(fn, lp):
        """the iterable of lp; a local assigned exactly once in fn from `self.event_handlers` (a helper's parameter after inlining),
        with the attribute itself not stored in fn, stands for it"""
        it_ = lp.iter
        if isinstance(it_, ast.Name):
            defs = [a for a in ast.walk(fn) if isinstance(a, ast.Assign) and any(isinstance(t, ast.Name) and t.id == it_.id for t in a.targets)]
            stores = [a for a in ast.walk(fn) if isinstance(a, ast.Attribute) and isinstance(a.ctx, (ast.Store, ast.Del))
                      and pyfront.dotted(a) == "self.event_handlers"]
            if len(defs) == 1 and not stores:
                return norm(ast.unparse(defs[0].value))
        return norm(ast.unparse(it_))
    for fn in scope:
        for lp in [n for n in ast.walk(fn) if isinstance(n, ast.For) and _iter_text(fn, n) == "self.event_handlers"]:
            for c in ast.walk(lp):
                if isinstance(c, ast.Call) and isinstance(c.func, ast.Attribute) and c.func.attr == "dispatch" \
                        and isinstance(c.func.value, ast.Name) and isinstance(lp.target, ast.Name) and c.func.value.id == lp.target.id:
                    disp.append((fn, lp, c))
    created = any(isinstance(c, ast.Call) and pyfront.call_name(c) == "FileCreatedEvent" for fn in scope for c in ast.walk(fn))
    if not disp or not created:
        raise AnalysisError("%s: replay of existing files (loop over self.event_handlers dispatching a FileCreatedEvent) not recognised" % q)
    for fn, lp, c in disp:
        mt = pyfront.kwarg(c, "match_time")
        if pyfront.const(mt) is False:
            r.ok("%s:%s %s" % (m.rel, c.lineno, q), "every handler receives the created event with match_time=False (the "
                 "listing already applied the window, including the forward-fill file)")
        else:
            r.violation(m.rel, q, norm(ast.unparse(c)), "replayed events are filtered by time again: the forward-fill metadata "
                        "file that the listing selected (older than the start time) would be dropped", line=c.lineno)
    calls = [c for c in ast.walk(f) if isinstance(c, ast.Call) and pyfront.call_name(c) == "list_drf.ilsdrf"]
    kinds_ok = False
    props_ok = False
    for c in calls:
        kw = {k.arg: norm(ast.unparse(k.value)) for k in c.keywords}
        if kw.get("include_drf") == "self.include_drf" and kw.get("include_dmd") == "self.include_dmd" and kw.get("starttime") == "self.starttime" \
                and kw.get("endtime") == "self.endtime":
            kinds_ok = True
        if kw.get("include_drf_properties") == "self.include_drf" and kw.get("include_dmd_properties") == "self.include_dmd":
            props_ok = True
    if len(calls) < 2:
        raise AnalysisError("%s: expected two list_drf.ilsdrf calls (properties, data), found %d" % (q, len(calls)))
    if kinds_ok and props_ok:
        r.ok("%s:%s %s" % (m.rel, f.lineno, q), "existing properties files and data files of the same kinds and window are listed for replay")
    else:
        r.violation(m.rel, q, "listing for replay (data kinds/window ok=%s, properties ok=%s)" % (kinds_ok, props_ok),
                    "files that existed before the mirror started are not selected with the mirror's own kinds and window", line=f.lineno)
    ios = [v_ for k_, v_ in m.methods(MI).items() if any(isinstance(c, ast.Call) and isinstance(c.func, ast.Attribute)
           and c.func.attr == "schedule" for c in ast.walk(v_))]
    if len(ios) != 1:
        raise AnalysisError("%s: method scheduling the handlers on the observer not found exactly once" % MI)
    io = ios[0]
    sched = [c for lp in ast.walk(io) if isinstance(lp, ast.For) and norm(ast.unparse(lp.iter)) == "self.event_handlers"
             for c in ast.walk(lp) if isinstance(c, ast.Call) and isinstance(c.func, ast.Attribute) and c.func.attr == "schedule"
             and c.args and isinstance(c.args[0], ast.Name) and isinstance(lp.target, ast.Name) and c.args[0].id == lp.target.id]
    # the handlers of one mirror must see an event in list order (copy handler first, the metadata ringbuffer of move mode last):
    # an observer keeps the handlers of a watch in a *set*, so handlers scheduled one by one are run in an order fixed by object
    # addresses; the ringbuffer (count=1) then deletes an older metadata file from the source before the copy handler ever saw it
    if sched:
        r.violation(m.rel, MI + "." + io.name, "for handler in self.event_handlers: self.observer.schedule(handler, ...)",
                    "the handlers of the mirror are scheduled separately: the observer keeps them in a set and runs them in an "
                    "arbitrary order per process; when the count=1 metadata ringbuffer of move mode sees `created(A)` for a file "
                    "older than one it already tracks before the copy handler does, it deletes A from the source before A was "
                    "copied - the file ends up in neither tree", line=sched[0].lineno)
    else:
        one = [c for c in ast.walk(io) if isinstance(c, ast.Call) and isinstance(c.func, ast.Attribute) and c.func.attr == "schedule"]
        comp = None
        if len(one) == 1 and one[0].args and isinstance(one[0].args[0], ast.Call) and one[0].args[0].args \
                and norm(ast.unparse(one[0].args[0].args[0])) == "self.event_handlers":
            comp = m.classes.get(pyfront.call_name(one[0].args[0]))
        if comp is None:
            raise AnalysisError("%s.%s: neither a scheduling loop over self.event_handlers nor one composite handler built from that "
                                "list was recognised" % (MI, io.name))
        disp = [m.flat(comp.name + ".dispatch").fn() for x in comp.body if isinstance(x, ast.FunctionDef) and x.name == "dispatch"]
        init = [x for x in comp.body if isinstance(x, ast.FunctionDef) and x.name == "__init__"]
        ordered = False
        if len(disp) == 1 and len(init) == 1 and len(init[0].args.args) == 2:
            hp = init[0].args.args[1].arg
            attrs = [a.targets[0].attr for a in ast.walk(init[0]) if isinstance(a, ast.Assign) and isinstance(a.targets[0], ast.Attribute)
                     and isinstance(a.value, ast.Name) and a.value.id == hp]
            def _it(lp):
                """the loop's iterable, a local assigned once from self.<attr> looked through"""
                it_ = lp.iter
                if isinstance(it_, ast.Name):
                    defs = [a for a in ast.walk(disp[0]) if isinstance(a, ast.Assign) and any(isinstance(t, ast.Name) and t.id == it_.id for t in a.targets)]
                    if len(defs) == 1:
                        it_ = defs[0].value
                return it_
            loops = [lp for lp in disp[0].body if isinstance(lp, ast.For) and isinstance(_it(lp), ast.Attribute) and _it(lp).attr in attrs
                     and isinstance(lp.target, ast.Name)]
            if len(loops) == 1 and not any(isinstance(y, (ast.Break, ast.Continue, ast.Return)) for y in ast.walk(loops[0])):
                calls_ = [c for c in ast.walk(loops[0]) if isinstance(c, ast.Call) and isinstance(c.func, ast.Attribute) and c.func.attr == "dispatch"
                          and isinstance(c.func.value, ast.Name) and c.func.value.id == loops[0].target.id]
                ordered = len(calls_) == 1
        rec_ok = pyfront.const(pyfront.kwarg(one[0], "recursive")) is True and len(one[0].args) >= 2 and norm(ast.unparse(one[0].args[1])) == "self.src"
        if ordered and rec_ok:
            r.ok("%s:%s %s.%s" % (m.rel, one[0].lineno, MI, io.name), "one composite handler (%s) is scheduled recursively on the source tree; it "
                 "dispatches every event to self.event_handlers in list order" % comp.name)
        elif not rec_ok:
            r.violation(m.rel, MI + "." + io.name, norm(ast.unparse(one[0]))[:80], "the handler is not attached recursively to the source tree",
                        line=one[0].lineno)
        else:
            raise AnalysisError("%s: the composite handler's dispatch is not a plain loop over the handler list" % comp.name)
    r.guard(3)
    return r


def r5_identical_content(repo=None):
    """'... exists at the same relative path under the destination with identical content; a file appears under its final name
    only when complete'.  Two structural necessary conditions: (a) the test by which mirror_to_dest decides that a file is already
    mirrored compares *content* - `filecmp.cmp` with `shallow=False` (the default compares type, size and modification time only,
    and copy2 copies the modification time after the bytes: a file written to during the copy is stale with equal size and time);
    (b) a staging function never takes an existing staging file for its own work: in every callable class used as the mirror
    function, a handler for FileExistsError around a link / copy call must replace the file (remove + link / copy again), not
    swallow the error - the rename that follows would publish whatever an interrupted run left there."""
    r = Rule("C17.R5", "a file is taken as mirrored only on equal content, and a left-over staging file is never published")
    m = pyfront.mod("mirror", repo)
    q = HD + ".mirror_to_dest"
    f = m.flat(q).fn()
    cmps = [c for c in ast.walk(f) if isinstance(c, ast.Call) and (pyfront.call_name(c) or "").startswith("filecmp.")]
    if not cmps:
        raise AnalysisError("%s: no filecmp call found (the already-mirrored test)" % q)
    for c in cmps:
        site = "%s:%s %s `%s`" % (m.rel, c.lineno, q, norm(ast.unparse(c))[:70])
        if pyfront.call_name(c) == "filecmp.cmp":
            sh = pyfront.kwarg(c, "shallow")
            if sh is None and len(c.args) >= 3:
                sh = c.args[2]
            if sh is not None and pyfront.const(sh) is False:
                r.ok(site, "compares the bytes (shallow=False)")
            else:
                r.violation(m.rel, q, norm(ast.unparse(c))[:80],
                            "the already-mirrored test compares type, size and modification time only (filecmp's default): copy2 copies "
                            "the time after the bytes, so a metadata or properties file written to during the copy keeps old bytes in "
                            "the destination with the new time and every later `modified` event is skipped", line=c.lineno)
        else:
            raise AnalysisError("%s: comparison `%s` not recognised" % (q, norm(ast.unparse(c))[:60]))
    # (a') in link mode the destination IS the source (two names of one inode): comparing contents reads the same inode twice, and a
    # write by the recorder between the two reads makes them differ; the mirror then links the file again under the staging name
    # and renames it onto the final name - a no-op for two links of one inode, so tmp.<name> stays for ever.  When a mirror
    # function can create hard links, every content comparison is the right operand of `os.path.samefile(src, dest) or ...`
    can_link = any(isinstance(x, ast.Attribute) and norm(ast.unparse(x)) == "os.link" for x in ast.walk(m.tree))
    if can_link:
        fparents = {}
        for n_ in ast.walk(f):
            for ch_ in ast.iter_child_nodes(n_):
                fparents[ch_] = n_
        for c in cmps:
            p_ = fparents.get(c)
            same_first = isinstance(p_, ast.BoolOp) and isinstance(p_.op, ast.Or) and any(
                isinstance(v, ast.Call) and pyfront.call_name(v) == "os.path.samefile"
                and [norm(ast.unparse(a)) for a in v.args] == [norm(ast.unparse(a)) for a in c.args[:2]]
                for v in p_.values[:p_.values.index(c)])
            if not same_first:
                # ... or an earlier statement: `if os.path.samefile(src, dest): return True` on every path to the comparison
                gq = m.flat(q).cfg()
                cn_ = [n for n in gq.nodes if n.ast is not None and any(x is c for x in pyfront.node_calls(n))]
                sf_ = [n.id for n in gq.nodes if n.kind == "cond" and n.ast is not None and any(
                    isinstance(v, ast.Call) and pyfront.call_name(v) == "os.path.samefile"
                    and [norm(ast.unparse(a)) for a in v.args] == [norm(ast.unparse(a)) for a in c.args[:2]] for v in ast.walk(n.ast))
                    and not any(x is c for x in pyfront.node_calls(n))]
                if cn_ and sf_ and cn_[0].id not in gq.reach([gq.entry.id], avoid=sf_, skip_labels=("exc",)):
                    same_first = True
            site = "%s:%s %s `%s`" % (m.rel, c.lineno, q, norm(ast.unparse(p_ if same_first and isinstance(p_, ast.BoolOp) else c))[:90])
            if same_first:
                r.ok(site, "a destination that is the same file as the source (hard link) counts as mirrored before contents are compared")
            else:
                r.violation(m.rel, q, "%s without os.path.samefile" % norm(ast.unparse(c))[:60], "in link mode source and destination are "
                            "two names of one inode: the content comparison reads it twice, a write by the recorder in between makes "
                            "the reads differ, the file is linked again under the staging name and renamed onto the final name, "
                            "which is a no-op for two links of one inode - tmp.<name> stays in the destination for ever", line=c.lineno)
    # (b) callable classes used as mirror functions
    n_cls = 0
    for cname, cnode in m.classes.items():
        meths = {x.name: x for x in cnode.body if isinstance(x, ast.FunctionDef)}
        call = meths.get("__call__")
        if call is None:
            continue
        prims = [c for c in ast.walk(call) if isinstance(c, ast.Call) and pyfront.call_name(c) in ("os.link", "os.symlink", "shutil.copy2", "shutil.copy", "shutil.copyfile")]
        if not prims:
            continue
        n_cls += 1
        handlers = [h for t in ast.walk(call) if isinstance(t, ast.Try) for h in t.handlers
                    if h.type is not None and "FileExistsError" in norm(ast.unparse(h.type))]
        if not handlers:
            r.ok("%s:%s %s.__call__" % (m.rel, call.lineno, cname), "no handler treats an existing staging file as already done")
        for h in handlers:
            redo = [c for c in ast.walk(h) if isinstance(c, ast.Call) and pyfront.call_name(c) in ("os.link", "os.symlink", "shutil.copy2", "shutil.copy", "shutil.copyfile", "os.replace")]
            raises = any(isinstance(x, ast.Raise) for x in ast.walk(h))
            if redo or raises:
                r.ok("%s:%s %s.__call__ except FileExistsError" % (m.rel, h.lineno, cname), "an existing staging file is replaced (%s)" % (
                    ", ".join(pyfront.call_name(c) for c in redo) or "re-raised"))
            else:
                r.violation(m.rel, cname + ".__call__", "except FileExistsError: %s" % norm(ast.unparse(h.body[0]))[:40],
                            "an existing destination of the staging step is taken for this run's own link; the destination given to the "
                            "mirror function is always the `tmp.` staging name, so what exists there is left over from an interrupted "
                            "mirror and the rename that follows publishes it under the final name", line=h.lineno)
        # (c) 'files that would be copied are instead hard linked; when hard linking is not possible, files will be copied': every
        # os.link of the function is covered by the copy fallback - it lies in the body of a try (directly, or inside a nested try
        # whose handlers re-try) that has an OSError handler which copies.  A link made in an `except` clause that is a *sibling*
        # of the OSError clause is not covered: a second failure there (EXDEV after the left-over staging file was removed)
        # leaves the mirror function by exception and the file is never mirrored.
        try:
            fcall = m.flat("%s.__call__" % cname).fn()
        except AnalysisError:
            fcall = call
        par_ = {}
        for n_ in ast.walk(fcall):
            for ch_ in ast.iter_child_nodes(n_):
                par_[ch_] = n_
        links = [c for c in ast.walk(fcall) if isinstance(c, ast.Call) and pyfront.call_name(c) in ("os.link", "os.symlink")]
        copies_somewhere = any(isinstance(c, ast.Call) and pyfront.call_name(c) in ("shutil.copy2", "shutil.copy", "shutil.copyfile") for c in ast.walk(fcall))
        for c in links if copies_somewhere else []:
            covered = False
            ch_, an_ = c, par_.get(c)
            while an_ is not None and not covered:
                if isinstance(an_, ast.Try) and any(ch_ is st_ for st_ in an_.body):
                    for h in an_.handlers:
                        names = ["*"] if h.type is None else [pyfront.dotted(h.type)] if not isinstance(h.type, ast.Tuple) else [pyfront.dotted(e) for e in h.type.elts]
                        if any(x in ("OSError", "EnvironmentError", "IOError", "Exception", "*") for x in names) and any(
                                isinstance(x, ast.Call) and pyfront.call_name(x) in ("shutil.copy2", "shutil.copy", "shutil.copyfile") for x in ast.walk(h)):
                            covered = True
                ch_, an_ = an_, par_.get(an_)
            site = "%s:%s %s.__call__ `%s`" % (m.rel, c.lineno, cname, norm(ast.unparse(c))[:40])
            if covered:
                r.ok(site, "a failure of this link is caught by an OSError handler that copies instead")
            else:
                r.violation(m.rel, cname + ".__call__", "%s outside the copy fallback" % norm(ast.unparse(c))[:50], "a link that fails here "
                            "(another file system: EXDEV - reported only after a left-over staging file was removed, because EEXIST comes "
                            "first) is not followed by the copy fallback: the exception leaves the mirror function, mirror_to_dest "
                            "prints it and the file is never mirrored", line=c.lineno)
    if n_cls == 0:
        r.note("no callable class is used as mirror function")
    r.guard(2)
    return r


def r6_handler_keeps_nothing_between_events(repo=None):
    """'repeated, late or stale events corrupt or duplicate nothing' - and lose nothing: whether a file is mirrored is decided from
    the source and the destination as they are when its event arrives (missing, or not the same content).  A mirror handler that
    remembers something from earlier events (the newest file seen per directory, a set of paths done) makes the decision depend
    on the order of the events: a late event for an older file is taken for a repeat and the file is never mirrored.  Who-may-store
    rule: no method of DigitalRFMirrorHandler other than its constructor stores an attribute of self or changes a container held
    in one."""
    r = Rule("C17.R6", "the mirror handler keeps no state from one event to the next")
    m = pyfront.mod("mirror", repo)
    meths = m.methods(HD)
    n = 0
    MUT = ("add", "append", "extend", "insert", "update", "setdefault", "pop", "popitem", "remove", "discard", "clear", "appendleft")
    for name, f in meths.items():
        if name == "__init__":
            continue
        n += 1
        bad = None
        for x in ast.walk(f):
            if isinstance(x, (ast.Assign, ast.AugAssign, ast.AnnAssign, ast.Delete)):
                tg = x.targets if isinstance(x, (ast.Assign, ast.Delete)) else [x.target]
                for t in tg:
                    base = t
                    while isinstance(base, ast.Subscript):
                        base = base.value
                    if isinstance(base, ast.Attribute) and isinstance(base.value, ast.Name) and base.value.id == "self":
                        bad = (x, "self.%s" % base.attr)
            elif isinstance(x, ast.Call) and isinstance(x.func, ast.Attribute) and x.func.attr in MUT:
                base = x.func.value
                while isinstance(base, ast.Subscript):
                    base = base.value
                if isinstance(base, ast.Attribute) and isinstance(base.value, ast.Name) and base.value.id == "self":
                    bad = (x, "self.%s" % base.attr)
        if bad:
            x, what = bad
            r.violation(m.rel, "%s.%s" % (HD, name), norm(ast.unparse(x))[:70], "the handler remembers `%s` from one event to the next: what it does "
                        "for a file then depends on which events came before - a late or re-ordered event for a file it has not mirrored "
                        "can be taken for a repeat and the file never reaches the destination (in move mode it stays in the source for "
                        "good)" % what, line=x.lineno)
        else:
            r.ok("%s:%s %s.%s" % (m.rel, f.lineno, HD, name), "stores nothing on self")
    if n < 4:
        raise AnalysisError("%s: only %d methods besides the constructor" % (HD, n))
    r.guard(4)
    return r


def rules(repo=None):
    return [lambda: r6_handler_keeps_nothing_between_events(repo), lambda: r1_staged_publication(repo), lambda: r2_errors_contained(repo), lambda: r3_handler_configuration(repo),
            lambda: r4_replay_existing(repo), lambda: r5_identical_content(repo)]


EXPLANATION = (
    'R1: in mirror_to_dest (private helpers inlined, copies of names left by inlining substituted) the staging path is '
    "dest_dir/'tmp.'+name, the complete list of file-system operations is {makedirs(dest_dir), mirror_fun(src, tmp), "
    'rename(tmp, final), rmdir(src_dir)} (anything else that touches source, staged copy or destination is reported), '
    'rename is preceded by mirror_fun on every path, and tmp. names are outside the listing/event grammar. R2: every '
    'operation is inside the non-re-raising OSError handler; on_deleted is not overridden and on_moved only hands '
    'event.dest_path, and on_created / on_modified hand event.src_path, to mirror_to_dest unconditionally (through '
    "helpers or not) (its absence is reported: the move-mode ringbuffer tracks moved files). R3: the constructor's if-"
    'chains are executed abstractly for all 24 (method, include_drf, include_dmd, link) rows and the handlers built are '
    'checked: RF in exactly one handler, shutil.move only with metadata/properties excluded, copy handler copies '
    'properties/metadata of the included kinds, move mode adds a count=1 metadata ringbuffer. R4: start() replays '
    'existing files to every handler. R5: the already-mirrored test compares content (filecmp shallow=False) and no '
    'mirror function swallows FileExistsError on the staging name. R4 also: the handlers of the mirror are dispatched in '
    'list order - one composite handler built from self.event_handlers is scheduled, its dispatch is a plain loop over '
    'that list; scheduling the handlers one by one is reported (the observer keeps them in a set). R5 also: when a mirror'
    ' function can create hard links every content comparison is the right operand of `os.path.samefile(src, dest) or '
    '...`. Does NOT decide byte identity or crash points inside shutil.move. R5 also (c): in a callable class used as the'
    ' mirror function every os.link lies in the body of a try whose OSError handler copies - a link made in a sibling '
    'except clause is not covered by the copy fallback. R3 judges only values it evaluated to constants; tables, partials'
    ' and unresolved mappings are not decided. R2 also: a mirror handler that does not define on_modified (and does not '
    'inherit it inside the package) does not mirror modifications. R6: no method of the mirror handler other than its '
    'constructor stores an attribute of self or mutates a container held in one (the decision to mirror depends on source'
    ' and destination only, not on earlier events).')
TECHNIQUE = ('Python ast; complete operation table of mirror_to_dest; CFG ordering; abstract execution of the constructor over all option rows; regular-language emptiness for tmp. names')
ASSUMPTIONS = ["os.rename within the destination directory is atomic", "shutil.copy2/os.link produce a complete file before returning"]
FILES = [MR, "python/digital_rf/list_drf.py", "python/digital_rf/ringbuffer.py"]
