"""C07 -- Continuous-mode gap fill semantics (partial).

Decides: the fill-value table of digital_rf_set_fill_value by constant evaluation against the documented
missing-data values (NaN / most negative / zero, byte-swapped image when orders differ, both complex
components, compound type for complex), exhaustiveness, the representation switch (needs_chunking) and who may
configure the dataset creation property list.  Not decided: that HDF5 returns the fill value for unwritten slots.
"""
from __future__ import annotations

import math
import re
import struct

from ..core import Rule, AnalysisError, C_LIB
from .. import cfront, clib, ceval, cfg as _cfg

LIB = C_LIB
OBJ = clib.OBJ
F = "digital_rf_set_fill_value"
SIZES = {"int8_t": 1, "int16_t": 2, "int32_t": 4, "int64_t": 8, "uint8_t": 1, "uint16_t": 2, "uint32_t": 4,
         "uint64_t": 8, "float": 4, "double": 8, "char": 1, "short": 2, "int": 4, "long long": 8, "long": 8,
         "signed char": 1, "unsigned char": 1}


class Ev(object):
    """Constant evaluation of local initialisers inside one function."""

    def __init__(self, fn):
        self.fn = fn
        self.vars = {d.name: d for d in fn.find("VarDecl")}
        self.records = {d.name: d for d in fn.find("RecordDecl")}

    def value(self, e):
        s = e.strip(casts=True)
        k = s.kind
        if k == "IntegerLiteral":
            return int(s.value)
        if k == "FloatingLiteral":
            return float(s.value)
        if k == "UnaryOperator" and s.opcode == "-":
            v = self.value(s.children[0])
            return None if v is None else -v
        if k == "BinaryOperator" and s.opcode in ("+", "-", "*"):
            a, b = self.value(s.children[0]), self.value(s.children[1])
            if isinstance(a, (int, float)) and isinstance(b, (int, float)):
                return {"+": a + b, "-": a - b, "*": a * b}[s.opcode]
            return None
        if k == "CallExpr" and (s.callee or "").startswith("__builtin_nan"):
            return float("nan")
        if k == "CallExpr" and (s.callee or "").startswith("__builtin_huge_val"):
            return float("inf")
        if k == "DeclRefExpr":
            d = self.vars.get(s.ref)
            if d is not None and d.children:
                return self.value(d.children[-1])
            return None
        if k == "InitListExpr":
            return [self.value(c) for c in s.children]
        if k == "ArraySubscriptExpr":
            base = self.value(s.children[0])
            idx = self.value(s.children[1])
            if isinstance(base, list) and isinstance(idx, int) and 0 <= idx < len(base):
                return base[idx]
            return None
        if k == "ImplicitValueInitExpr":
            return 0
        return None

    def elem_sizes(self, var):
        """byte sizes of the scalar elements of the object: scalar -> [n]; T[k] -> [n]; struct -> [n, n];
        struct[k] -> [n, n]"""
        d = self.vars.get(var)
        if d is None:
            return None
        t = re.sub(r"\[\d+\]", "", d.type).replace("const ", "").replace("volatile ", "").strip()
        if t.startswith("struct "):
            rec = self.records.get(t[7:].strip())
            if rec is None:
                return None
            out = []
            for f in rec.children:
                if f.kind == "FieldDecl":
                    out.append(SIZES.get(f.type.strip()))
            return out
        return [SIZES.get(t)]

    def is_array(self, var):
        d = self.vars.get(var)
        return d is not None and re.search(r"\[\d+\]", d.type) is not None


def bswap_min(nbytes):
    """Value of the byte-reversed image of the N-byte minimum, read as a native signed integer."""
    b = (-(1 << (8 * nbytes - 1))).to_bytes(nbytes, "little", signed=True)
    return int.from_bytes(bytes(reversed(b)), "little", signed=True)


CELLS = [("H5T_FLOAT", nb, None, cplx) for nb in (4, 8) for cplx in (0, 1)] + \
        [("H5T_INTEGER", nb, sg, cplx) for nb in (1, 2, 4, 8) for sg in ("H5T_SGN_2", "H5T_SGN_NONE") for cplx in (0, 1)]


def _cell_name(cell):
    cls, nb, sg, cplx = cell
    return "%s %d-byte %s%s" % ("complex" if cplx else "real", nb, "float" if cls == "H5T_FLOAT" else (
        "signed" if sg == "H5T_SGN_2" else "unsigned"), "" if cls == "H5T_FLOAT" else " integer")


def _elem_types(fn, var):
    """scalar C types of the elements of local object `var` (struct -> field types; T[k] -> [T])"""
    for d in fn.find("VarDecl"):
        if d.name == var:
            t = re.sub(r"\[\d+\]", "", d.type).replace("const ", "").replace("volatile ", "").strip()
            if t.startswith("struct "):
                for rec in fn.find("RecordDecl"):
                    if rec.name == t[7:].strip():
                        return [(f.name, f.type.strip()) for f in rec.children if f.kind == "FieldDecl"]
                return None
            return [(None, t)]
    return None


_PACK = {("float", 4): "f", ("double", 8): "d"}


def _image(value, ctype, host_little):
    """byte image of a scalar of C type `ctype` on a host of the given byte order"""
    n = ceval.SIZES.get(ctype)
    if n is None or isinstance(value, (list, str)) or value is None:
        return None
    pre = "<" if host_little else ">"
    if ctype in ("float", "double"):
        return struct.pack(pre + _PACK[(ctype, n)], float(value))
    v = int(value) & ((1 << (8 * n)) - 1)
    return v.to_bytes(n, "little" if host_little else "big")


def _from_image(img, ctype, little):
    n = len(img)
    pre = "<" if little else ">"
    if ctype in ("float", "double"):
        return struct.unpack(pre + _PACK[(ctype, n)], img)[0]
    signed = not ctype.startswith("u") and ctype != "unsigned char"
    return int.from_bytes(img, "little" if little else "big", signed=signed)


_REVERSALS = {}


def is_byte_reversal(fn):
    """True if fn(void *value, size_t n) reverses the n bytes at value in place: decided by executing its CFG on
    concrete byte arrays of the sizes that occur (2, 4, 8)."""
    key = (id(fn.tu), fn.name)
    if key in _REVERSALS:
        return _REVERSALS[key]
    ps = [p_ for p_ in fn.children if p_.kind == "ParmVarDecl"]
    ok = len(ps) == 2 and ps[0].type.rstrip().endswith("*")
    if ok:
        for n in (2, 4, 8):
            data = list(range(1, n + 1))
            try:
                m = ceval.Machine(fn, {ps[0].name: list(data), ps[1].name: n}, lambda name, args, node: None)
                m.run()
            except ceval.OutOfBounds:
                # evaluated up to an access beyond the n bytes it was handed: certainly not an in-place reversal of them
                ok = False
                break
            except AnalysisError as e:
                # what the helper does to the bytes is not known: neither "a reversal" nor "not a reversal"
                raise AnalysisError("%s(): the helper handed (address, size) could not be evaluated (%s): whether it reverses the "
                                    "bytes is not decided" % (fn.name, str(e)[:120]))
            views = [v for k_, v in m.env.items() if isinstance(v, list) and len(v) == n]
            if not views or not all(v == data or v == data[::-1] for v in views) or not any(v == data[::-1] for v in views):
                ok = False
                break
    _REVERSALS[key] = ok
    return ok


def run_cell(fn, cell, host_little, order):
    """Concrete execution of digital_rf_set_fill_value for one element type / host order / data order.  Returns
    (return value, [H5Pset_fill_value (prop, type id, Addr)], machine)."""
    cls, nb, sg, cplx = cell
    box = {}

    def target(addr):
        """(variable, element index, field index, c type) of an Addr"""
        var, fld = (addr.var.split(".", 1) + [None])[:2] if addr.var and "." in addr.var else (addr.var, None)
        et = _elem_types(fn, var)
        if et is None:
            return None
        fi = None
        if fld is not None:
            names = [n_ for n_, t_ in et]
            if fld not in names:
                return None
            fi = names.index(fld)
        return var, addr.index, fi, et

    def oracle(name, args, node):
        base = bool(args) and args[0] == "DT"
        if name == "H5Tget_class":
            return cls if base else "H5T_COMPOUND"
        if name == "H5Tget_size":
            return nb if base else 2 * nb
        if name == "H5Tget_sign":
            return (sg or "H5T_SGN_2") if base else "H5T_SGN_ERROR"
        if name == "H5Tget_order":
            return order if base else "H5T_ORDER_NONE"
        if name == "digital_rf_is_little_endian":
            return int(host_little)
        if name.startswith("H5P"):
            return 0
        if name in ("fprintf", "printf", "snprintf"):
            return 0
        if name in fn.tu.functions and len(args) == 2 and isinstance(args[0], ceval.Addr) and isinstance(args[1], int) \
                and is_byte_reversal(fn.tu.functions[name]):
            # in-place byte reversal of (an element of) a local object
            m = box["m"]
            tg = target(args[0])
            if tg is None or tg[0] not in m.env:
                raise AnalysisError("%s: target of %s() not resolved" % (F, name))
            var, idx, fi, et = tg
            val = m.env[var]
            path = [i for i in (idx, fi) if i is not None]
            cur = val
            for i in path:
                cur = cur[i]
            ctype = et[fi][1] if fi is not None else et[0][1]
            if isinstance(cur, list) or ceval.SIZES.get(ctype) != args[1]:
                raise AnalysisError("%s: %s() on a %s object with size %r" % (F, name, ctype, args[1]))
            newv = _from_image(_image(cur, ctype, host_little)[::-1], ctype, host_little)
            if not path:
                m.env[var] = newv
            else:
                import copy
                val = copy.deepcopy(val)
                c2 = val
                for i in path[:-1]:
                    c2 = c2[i]
                c2[path[-1]] = newv
                m.env[var] = val
            return 0
        return None
    env = {OBJ + "->dtype_id": "DT", OBJ + "->complex_dtype_id": "CDT", OBJ + "->dataset_prop": "PROP", OBJ + "->is_complex": cplx}
    m = ceval.Machine(fn, env, oracle)
    box["m"] = m
    rv = m.run()
    fills = [(a, node) for name, a, node in m.trace if name == "H5Pset_fill_value"]
    return rv, fills, m


def fill_table(repo=None):
    """{cell: [(host_little, order, problems, description, line, missing)]} by executing the function for every cell and
    host/data byte order pair.  Oracle (from the property and HDF5's contract that the buffer given to H5Pset_fill_value is
    read as the given type id, i.e. in the DATA byte order): the host byte image of each component, read in the data byte
    order, is NaN (float), the most negative value (signed) or zero (unsigned)."""
    tu = cfront.lib(repo)
    fn = tu.fn(F)
    out = {}
    for cell in CELLS:
        cls, nb, sg, cplx = cell
        rows = []
        for host_little in (1, 0):
            for order in ("H5T_ORDER_LE", "H5T_ORDER_BE"):
                rv, fills, m = run_cell(fn, cell, host_little, order)
                probs = []
                desc = ""
                line = fn.line
                if rv != 0 or not fills:
                    rows.append((host_little, order, ["no fill value: the function returns %r after %d H5Pset_fill_value calls" % (
                        rv, len(fills))], "", line, True))
                    continue
                if len(fills) != 1:
                    probs.append("%d H5Pset_fill_value calls" % len(fills))
                (prop, tid, addr), node = fills[-1]
                line = node.line
                if prop != "PROP":
                    probs.append("fill value set on %r, not on the dataset creation property list" % (prop,))
                want_tid = "CDT" if cplx else "DT"
                if tid != want_tid:
                    probs.append("type id %s passed, %s expected for %s data" % (
                        {"DT": "dtype_id", "CDT": "complex_dtype_id"}.get(tid, tid), "complex_dtype_id" if cplx else "dtype_id",
                        "complex" if cplx else "real"))
                et = _elem_types(fn, addr.var) if isinstance(addr, ceval.Addr) and addr.var else None
                if isinstance(addr, int) and addr == 0:
                    probs.append("a NULL fill value is passed (the fill value is left undefined)")
                    rows.append((host_little, order, probs, desc, line, False))
                    continue
                if et is None or addr.var not in m.env:
                    # a buffer filled by memcpy, a pointer chosen by a table ...: what it holds is not known, which is not "wrong"
                    raise AnalysisError("%s: the object handed to H5Pset_fill_value at line %s (%r) was not resolved" % (F, line, addr))
                val = m.env[addr.var]
                if addr.index is not None:
                    val = val[addr.index] if isinstance(val, list) and isinstance(addr.index, int) and 0 <= addr.index < len(val) else None
                ncomp = 2 if cplx else 1
                comps = val if isinstance(val, list) else [val]
                ctypes = [t_ for n_, t_ in et]
                sizes = [ceval.SIZES.get(t_) for t_ in ctypes]
                desc = "%r" % (val,)
                unsigned_real = cls == "H5T_INTEGER" and sg == "H5T_SGN_NONE" and not cplx
                if len(comps) != len(ctypes) or (len(comps) != ncomp):
                    probs.append("object %s has %d components, %d expected" % (addr.var, len(comps), ncomp))
                elif unsigned_real:
                    if not sizes or sizes[0] is None or sizes[0] < nb:
                        probs.append("object of %s bytes is smaller than the %d-byte HDF5 type (over-read)" % (sizes, nb))
                    if comps[0] != 0:
                        probs.append("unsigned fill value %r is not zero" % (comps,))
                elif any(z != nb for z in sizes):
                    probs.append("object element sizes %s do not match %d-byte %s" % (sizes, nb, "complex" if cplx else "real"))
                else:
                    data_little = order == "H5T_ORDER_LE"
                    seen = []
                    for v, t_ in zip(comps, ctypes):
                        img = _image(v, t_, host_little)
                        if img is None:
                            probs.append("component value %r not evaluated" % (v,))
                            continue
                        rt = "float" if nb == 4 and cls == "H5T_FLOAT" else "double" if cls == "H5T_FLOAT" else (
                            ("u" if sg == "H5T_SGN_NONE" else "") + "int%d_t" % (8 * nb))
                        seen.append(_from_image(img, rt, data_little))
                    if cls == "H5T_FLOAT":
                        good = all(isinstance(x, float) and math.isnan(x) for x in seen)
                        wanted = "NaN"
                    elif sg == "H5T_SGN_NONE":
                        good = all(x == 0 for x in seen)
                        wanted = "0"
                    else:
                        mn = -(1 << (8 * nb - 1))
                        good = all(x == mn for x in seen)
                        wanted = str(mn)
                    if not good and not probs:
                        probs.append("the fill value object %s holds %r, which the data set (%s data on a %s-endian host) reads as %r "
                                     "instead of %s" % (addr.var, val, "little-endian" if data_little else "big-endian",
                                                        "little" if host_little else "big", seen, wanted))
                rows.append((host_little, order, probs, desc, line, False))
        out[cell] = rows
    return fn, out


def r1_fill_table(repo=None):
    r = Rule("C07.R1", "fill-value table matches the documented missing-data values in every cell (evaluation of all cells)")
    fn, table = fill_table(repo)
    for cell in CELLS:
        rows = table[cell]
        bad = [(h, o, p, d, ln) for h, o, p, d, ln, missing in rows if p and not missing]
        if bad:
            seen = set()
            for h, o, p, d, ln in bad:
                text = "; ".join(p)
                if text in seen:
                    continue
                seen.add(text)
                r.violation(LIB, F, "cell %s (%s-endian host, %s data): %s" % (_cell_name(cell), "little" if h else "big",
                            "LE" if o.endswith("LE") else "BE", text), "unwritten slots would not read as the documented "
                            "missing-data value", line=ln)
        elif not any(missing for *_, missing in rows):
            r.ok("%s:%s %s cell %s" % (LIB, rows[0][4], F, _cell_name(cell)), "fill value %s over the 4 host/data byte order "
                 "combinations; right type id and object size" % " / ".join(sorted({d for _, _, _, d, _, _ in rows})))
    r.guard(19)
    return r


def r2_exhaustive(repo=None):
    r = Rule("C07.R2", "every element type the extension can produce has a fill cell")
    fn, table = fill_table(repo)
    n = 0
    for cell in CELLS:
        miss = [(h, o, p) for h, o, p, d, ln, missing in table[cell] if missing]
        if miss:
            h, o, p = miss[0]
            r.violation(LIB, F, "no fill cell for %s" % _cell_name(cell), "a type accepted by the writer reaches the error exit of "
                        "digital_rf_set_fill_value (or gets no fill value): %s" % p[0], line=fn.line)
        else:
            n += 1
    if n == len(CELLS):
        r.ok("%s %s" % (LIB, F), "all 20 (class, size, signedness, real/complex) cells of the dtype table set a fill value and return 0")
    r.guard(1)
    return r


def _eval_bool(e, env):
    s = e.strip(casts=True)
    if s.kind == "BinaryOperator" and s.opcode == "&&":
        return _eval_bool(s.children[0], env) and _eval_bool(s.children[1], env)
    if s.kind == "BinaryOperator" and s.opcode == "||":
        return _eval_bool(s.children[0], env) or _eval_bool(s.children[1], env)
    if s.kind == "UnaryOperator" and s.opcode == "!":
        return not _eval_bool(s.children[0], env)
    if s.kind == "ConditionalOperator":
        return _eval_bool(s.children[1], env) if _eval_bool(s.children[0], env) else _eval_bool(s.children[2], env)
    if s.kind == "IntegerLiteral":
        return bool(s.intval())
    if s.kind == "BinaryOperator" and s.opcode in ("==", "!=", ">", "<"):
        p = s.children[0].path()
        v = s.children[1].intval()
        if p is None or v is None:
            raise AnalysisError("cannot evaluate condition %s" % s.nsrc)
        name = p.split("->")[-1]
        if name not in env:
            raise AnalysisError("condition reads unexpected variable %s" % p)
        return {"==": env[name] == v, "!=": env[name] != v, ">": env[name] > v, "<": env[name] < v}[s.opcode]
    p = s.path()
    if p is not None and p.split("->")[-1] in env:
        return bool(env[p.split("->")[-1]])
    raise AnalysisError("cannot evaluate condition %s" % s.nsrc)


def _mentions(e, names):
    for x in e.walk():
        p = x.path() if x.kind in ("DeclRefExpr", "MemberExpr") else None
        if p and p.split("->")[-1] in names:
            return True
    return False


def value_under(fn, target, env, names):
    """The expression (CNode) or boolean last stored to `target` in fn when the flags have the values env: stores are taken in
    source order, a store counts when every enclosing if/?: condition that mentions a flag evaluates to its branch.
    Returns (value node or bool, store node) or (None, None)."""
    best = (None, None)
    defs = [(p, n, rhs, k) for p, n, rhs, k in clib.stores(fn)]
    # `const T target = <expression>;` is a store like any other (a declaration with a non-constant initialiser)
    defs += [(d.name, d, d.children[-1], "=") for d in fn.find("VarDecl") if d.name == target and d.children
             and d.children[-1].kind not in ("InitListExpr",)]
    for p, n, rhs, k in sorted(defs, key=lambda t: t[1].begin):
        if p != target or k != "=" or rhs is None:
            continue
        live = True
        for a in n.ancestors():
            if a.kind == "IfStmt" and _mentions(a.children[0], names):
                inthen = a.children[1].begin <= n.begin and n.end <= a.children[1].end
                if _eval_bool(a.children[0], env) != inthen:
                    live = False
        if not live:
            continue
        v = rhs.strip(casts=True)
        while v.kind == "ConditionalOperator" and _mentions(v.children[0], names):
            v = (v.children[1] if _eval_bool(v.children[0], env) else v.children[2]).strip(casts=True)
        best = (v, n)
    return best


def _local_alias_text(fn, e):
    """source text of e with a single-definition const local replaced by its initialiser"""
    s = e.strip(casts=True)
    p = s.path()
    if s.kind == "DeclRefExpr" and p:
        ds = [d for d in fn.find("VarDecl") if d.name == p and d.children]
        st = [x for x in clib.stores(fn) if x[0] == p]
        if len(ds) == 1 and not st:
            return re.sub(r"\s", "", ds[0].children[-1].nsrc)
    return re.sub(r"\s", "", s.nsrc)


def r3_representation_switch(repo=None):
    r = Rule("C07.R3", "the dense (fill-value) representation is used exactly for continuous, uncompressed, unchecksummed data")
    tu = cfront.lib(repo)
    ctor = tu.fn("digital_rf_create_write_hdf5")
    st = clib.field_stores(tu, "needs_chunking")
    outside = [x for x in st if x[0] != ctor.name]
    if outside:
        r.violation(LIB, outside[0][0], outside[0][1].nsrc[:80], "the representation flag must be decided once, in the constructor",
                    line=outside[0][1].line)
    elif not st:
        raise AnalysisError("needs_chunking is never stored")
    else:
        names = ("checksum", "compression_level", "is_continuous")
        table_ok = True
        first = st[0][1]
        bad_combo = None
        for cs in (0, 1):
            for cl in (0, 5):
                for ic in (0, 1):
                    env = {"checksum": cs, "compression_level": cl, "is_continuous": ic}
                    v, node = value_under(ctor, OBJ + "->needs_chunking", env, names)
                    if v is None:
                        raise AnalysisError("needs_chunking: no store applies for %s" % env)
                    got = _eval_bool(v, env) if not isinstance(v, bool) else v
                    want = bool(cs) or cl != 0 or ic != 1
                    if got != want:
                        table_ok = False
                        bad_combo = (env, got)
        if table_ok:
            r.ok("%s:%s %s needs_chunking" % (LIB, first.line, ctor.name), "= checksum || compression_level != 0 || "
                 "!is_continuous over all 8 flag combinations; stored only in the constructor")
        else:
            r.violation(LIB, ctor.name, "needs_chunking is %d for %s" % (bad_combo[1], ", ".join("%s=%d" % kv for kv in sorted(
                        bad_combo[0].items()))), "the dense representation must be selected exactly "
                        "when continuous && no compression && no checksum", line=first.line)
    # use sites
    cf = tu.fn("digital_rf_create_hdf5_file")
    flag = ("needs_chunking",)

    def under_flag(fn, target):
        out = {}
        node = None
        params_ = {p_.name for p_ in fn.children if p_.kind == "ParmVarDecl"}
        for fl in (1, 0):
            v, n_ = value_under(fn, target, {"needs_chunking": fl}, flag)
            if v is None:
                return None, None
            node = n_
            # the value may be a local that was itself chosen under the flag (`first_row = flag ? 0 : max - left`)
            hops = 0
            while hops < 3 and v.intval() is None and v.kind == "DeclRefExpr" and v.path() not in params_:
                v2, _n2 = value_under(fn, v.path(), {"needs_chunking": fl}, flag)
                if v2 is None:
                    break
                v = v2
                hops += 1
            out[bool(fl)] = v.intval() if v.intval() is not None else _local_alias_text(fn, v)
        return out, node

    def unresolved(fn, got):
        """a value text that still names a local of fn (not a parameter): the comparison with the expected text says nothing"""
        params_ = {p_.name for p_ in fn.children if p_.kind == "ParmVarDecl"}
        locals_ = {d.name for d in fn.find("VarDecl")} - params_
        return [t for t in got.values() if isinstance(t, str) and (set(re.findall(r"[A-Za-z_]\w*", t)) & locals_)]
    rows_var = _rows_target(cf)
    got, node = under_flag(cf, rows_var)
    if got is None:
        raise AnalysisError("%s: assignment of the data-set row count `%s` not found" % (cf.name, rows_var))
    if got == {True: "samples_to_write", False: "max_samples_this_file"}:
        r.ok("%s:%s %s %s" % (LIB, node.line, cf.name, rows_var), "samples_to_write when chunked, max_samples_this_file when dense")
    elif unresolved(cf, got):
        raise AnalysisError("%s: the data-set row count under needs_chunking (%s) is held in locals this rule did not resolve" % (cf.name, got))
    else:
        r.violation(LIB, cf.name, "data-set rows under needs_chunking: %s" % got, "dataset size does not follow the representation flag "
                    "(a dense file must expose every slot of its window)", line=node.line)
    gotd, node = under_flag(cf, OBJ + "->dataset_index")
    if gotd is None:
        raise AnalysisError("%s: assignment of dataset_index not found" % cf.name)
    if gotd == {True: 0, False: "max_samples_this_file-samples_left"}:
        r.ok("%s:%s %s dataset_index" % (LIB, node.line, cf.name), "0 when chunked, max - samples_left when dense")
    elif unresolved(cf, gotd):
        raise AnalysisError("%s: dataset_index under needs_chunking (%s) is held in locals this rule did not resolve" % (cf.name, gotd))
    else:
        r.violation(LIB, cf.name, "dataset_index under needs_chunking: %s" % gotd, "write offset in a new file does not follow "
                    "the representation flag", line=node.line)
    ci = tu.fn("digital_rf_create_rf_data_index")
    reb = [(n, rhs) for p, n, rhs, k in clib.stores(ci) if k == "-=" and (p or "").endswith("[0]")]
    if len(reb) != 1:
        raise AnalysisError("%s: %d statements rebasing the first index row found, 1 confirmed on the reference tree" % (ci.name, len(reb)))
    else:
        node, rhs = reb[0]
        conds = [a for a in node.ancestors() if a.kind == "IfStmt" and _mentions(a.children[0], ("is_continuous",))][:1]
        if not conds:
            conds = [a for a in node.ancestors() if a.kind == "IfStmt"][:1]
        ok = True
        for ic in (0, 1):
            for nc in (0, 1):
                env = {"is_continuous": ic, "needs_chunking": nc}
                live = all(_eval_bool(_only(a.children[0], ("is_continuous", "needs_chunking")), env) == (
                    a.children[1].begin <= node.begin and node.end <= a.children[1].end) for a in conds)
                if live != (bool(ic) and not nc):
                    ok = False
        by = _local_alias_text(ci, rhs)
        if ok and by == "max_samples_this_file-samples_left":
            r.ok("%s:%s %s" % (LIB, node.line, ci.name), "first index row rebased by (max - samples_left) exactly when dense")
        else:
            r.violation(LIB, ci.name, "rebasing under (%s) by %s" % (" && ".join(re.sub(r"\s+", " ", a.children[0].nsrc) for a in conds), by),
                        "index row rebasing does not follow the representation flag", line=node.line)
    # fill value attached before any dataset is created: constructor passes set_fill_value with rejection
    g = _cfg.build_c(ctor)
    sf = [n for n in g.nodes if n.ast is not None and n.ast.calls((F,))]
    succ = [n for n in g.nodes if n.kind == "return" and n.ast.children and n.ast.children[0].path() == "hdf5_data_object"]
    if sf and succ and all(s.id not in g.reach([g.entry.id], avoid=[x.id for x in sf]) for s in succ) and all(
            x.kind == "cond" for x in sf) and not any(s.id in g.reach([b for b, l in g.succ[sf[0].id] if l == "T"]) for s in succ):
        r.ok("%s:%s %s" % (LIB, sf[0].line, ctor.name), "digital_rf_set_fill_value runs (and its failure rejects) before the "
             "constructor succeeds, i.e. before any H5Dcreate2")
    else:
        r.violation(LIB, ctor.name, "constructor can succeed without digital_rf_set_fill_value", "datasets could be created "
                    "without the documented fill value", line=ctor.line)
    r.guard(5)
    return r


class _Const(object):
    """stand-in CNode for a literal truth value"""
    kind = "IntegerLiteral"

    def __init__(self, v):
        self.v = v

    def strip(self, casts=False):
        return self

    def intval(self):
        return self.v


def _only(e, names):
    """`e` with conjuncts that do not mention the flags dropped (they are assumed to hold: i == 0, file_exists ...)"""
    s = e.strip(casts=True)
    if s.kind == "BinaryOperator" and s.opcode == "&&":
        l, r_ = s.children
        if not _mentions(l, names):
            return _only(r_, names)
        if not _mentions(r_, names):
            return _only(l, names)
    return s


PROP_SITES = {("digital_rf_create_write_hdf5", "H5Pset_deflate"), ("digital_rf_create_write_hdf5", "H5Pset_filter"),
              ("digital_rf_set_fill_value", "H5Pset_fill_value"), ("digital_rf_write_blocks_hdf5", "H5Pset_chunk"),
              ("digital_rf_free_hdf5_data_object", "H5Pclose"), ("digital_rf_create_hdf5_file", "H5Dcreate2")}


def r4_property_list_owners(repo=None):
    r = Rule("C07.R4", "the dataset creation property list (fill value, fill time, allocation) is configured only at construction")
    tu = cfront.lib(repo)
    n = 0
    for fname, fn in tu.functions.items():
        for c in fn.calls():
            if any(clib.alias_path(fn, a) == OBJ + "->dataset_prop" for a in c.args):
                n += 1
                if (fname, c.callee) in PROP_SITES:
                    r.ok("%s:%s %s %s" % (LIB, c.line, fname, c.callee), "expected use of dataset_prop")
                else:
                    r.violation(LIB, fname, c.nsrc[:90], "the dataset creation property list is modified outside the constructor "
                                "(fill value / fill time / allocation settings decide what unwritten slots read as)", line=c.line)
    if n < 6:
        raise AnalysisError("only %d uses of dataset_prop found (23 on the reference tree)" % n)
    r.guard(6)
    return r


def _rows_target(cf):
    """the local that holds the number of rows the new file's data set gets: the value stored into element 0 of the dimension
    array given to the H5Screate_simple whose result is the data space of H5Dcreate2 (the element itself when the stored value
    is not a plain local)"""
    spaces = {clib.alias_path(cf, c.args[3]) for c in cf.calls(("H5Dcreate2",))}
    if len(spaces) != 1 or None in spaces:
        raise AnalysisError("%s: data space argument of H5Dcreate2 not recognised (%s)" % (cf.name, sorted(map(str, spaces))))
    space = list(spaces)[0]
    dims_var = None
    for path, node, rhs, kind in clib.stores(cf):
        if path == space and kind == "=":
            e = rhs.strip(casts=True)
            if e.kind == "CallExpr" and e.callee == "H5Screate_simple":
                dims_var = e.args[1].path()
    if dims_var is None:
        raise AnalysisError("%s: `%s = H5Screate_simple(...)` not found" % (cf.name, space))
    sets = [(node, rhs) for path, node, rhs, kind in clib.stores(cf) if path == dims_var + "[0]" and kind == "="]
    if not sets:
        # `hsize_t dims[2] = {rows, columns};`: element 0 of the initialiser is the store
        for d in cf.find("VarDecl"):
            if d.name == dims_var and d.children and d.children[-1].kind == "InitListExpr" and d.children[-1].children:
                sets = [(d, d.children[-1].children[0])]
    if len(sets) == 1:
        v = sets[0][1].strip(casts=True).path()
        locals_ = {d.name for d in cf.find("VarDecl")}
        if v in locals_:
            return v
    return dims_var + "[0]"


def r5_dataset_sized_per_file(repo=None):
    r = Rule("C07.R5", "the data set of every new file is sized from that file's own slot count (must-pass)")
    tu = cfront.lib(repo)
    fn = tu.fn("digital_rf_create_hdf5_file")
    g = _cfg.build_c(fn)
    creates = [n for n in g.nodes if n.ast is not None and n.ast.calls(("H5Dcreate2",))]
    if not creates:
        raise AnalysisError("%s: H5Dcreate2 not found" % fn.name)
    spaces = set()
    for n in creates:
        for c in n.ast.calls(("H5Dcreate2",)):
            spaces.add(clib.alias_path(fn, c.args[3]))
    if len(spaces) != 1 or None in spaces:
        raise AnalysisError("%s: data space argument of H5Dcreate2 not recognised (%s)" % (fn.name, sorted(map(str, spaces))))
    space = list(spaces)[0]
    mk = []
    dims_var = None
    for n in g.nodes:
        if n.kind == "stmt" and n.ast is not None and n.ast.kind == "BinaryOperator" and n.ast.opcode == "=" \
                and n.ast.children[0].path() == space:
            cs = n.ast.children[1].calls(("H5Screate_simple",))
            rhs = n.ast.children[1].strip(casts=True)
            if rhs.kind == "CallExpr" and rhs.callee == "H5Screate_simple":
                mk.append(n)
                dims_var = rhs.args[1].path()
    if not mk or dims_var is None:
        raise AnalysisError("%s: `%s = H5Screate_simple(...)` not found" % (fn.name, space))
    skip = [c for c in creates if c.id in g.reach([g.entry.id], avoid=[n.id for n in mk])]
    if skip:
        r.violation(LIB, fn.name, "H5Dcreate2 reachable without `%s = H5Screate_simple(...)` in the same call" % space.split("->")[-1],
                    "a new file's data set can be created with a data space left over from an earlier file: when files hold different "
                    "numbers of slots (non-integer samples per file) the file exposes more or fewer slots than its time window",
                    line=skip[0].line)
    else:
        r.ok("%s:%s %s" % (LIB, mk[0].line, fn.name), "every path to H5Dcreate2 creates the data space anew")
    # dims[0] is this call's num_rows on every path to the creation of the data space
    sets = [n for n in g.nodes if n.kind == "stmt" and n.ast is not None and n.ast.kind == "BinaryOperator" and n.ast.opcode == "="
            and n.ast.children[0].path() == dims_var + "[0]"]
    if not sets:
        decl = [d for d in fn.find("VarDecl") if d.name == dims_var and d.children and d.children[-1].kind == "InitListExpr" and d.children[-1].children]
        if len(decl) == 1 and any(x.kind in ("DeclRefExpr", "MemberExpr") for x in decl[0].children[-1].children[0].walk()):
            # the array is declared with its sizes: the initialiser runs on every path on which the array exists
            r.ok("%s:%s %s" % (LIB, decl[0].line, fn.name), "%s[0] is initialised with %s where the array is declared" % (
                dims_var, re.sub(r"\s", "", decl[0].children[-1].children[0].nsrc)))
            r.guard(2)
            return r
        raise AnalysisError("%s: no assignment to %s[0]" % (fn.name, dims_var))
    skip2 = [m_ for m_ in mk if m_.id in g.reach([g.entry.id], avoid=[n.id for n in sets])]
    if skip2:
        r.violation(LIB, fn.name, "%s[0] not assigned on every path to H5Screate_simple" % dims_var, "the size of the data set does not "
                    "follow this file's slot count", line=skip2[0].line)
    else:
        r.ok("%s:%s %s" % (LIB, sets[0].line, fn.name), "%s[0] = %s is assigned on every path before the data space is created" % (
            dims_var, re.sub(r"\s", "", sets[0].ast.children[1].nsrc)))
    r.guard(2)
    return r


def r6_slots_of_the_samples_own_file(repo=None):
    """'Slots that were never written read as the missing-data value': a slot stays unwritten only if no write of *another* period
    lands in it.  The slot of a sample is (capacity of its file - samples left in it), both outputs of the naming function of the
    sample (C04.R9): claimed here as the necessary condition that the data-set offset of a write is derived from the sample and
    not from a window the writer remembered."""
    from . import c04
    return c04.r9_target_file_derived_from_the_sample(repo, rid="C07.R6")


def rules(repo=None):
    return [lambda: r1_fill_table(repo), lambda: r2_exhaustive(repo), lambda: r3_representation_switch(repo),
            lambda: r4_property_list_owners(repo), lambda: r5_dataset_sized_per_file(repo), lambda: r6_slots_of_the_samples_own_file(repo)]


EXPLANATION = (
    "R1: digital_rf_set_fill_value is executed over its CFG by a small concrete machine (no compilation, no running of the "
    "library: the clang AST is interpreted, HDF5 type queries and the host byte order are answered by an oracle) for every "
    "element type the extension can produce (20 cells: float 4/8, signed/unsigned 1/2/4/8, real/complex) times the 4 host/data "
    "byte-order combinations; the H5Pset_fill_value call reached is compared with the property's table: float -> NaN in every "
    "component, unsigned -> 0, signed N bytes -> minimum when orders match and its byte-reversed image when they differ, "
    "complex -> both fields and the compound type id, object at least as large as the HDF5 type, set on dataset_prop. R2: all "
    "20 cells return 0 with a fill value. R3: needs_chunking over the 8 flag combinations (stores evaluated under their "
    "enclosing conditions / ?: operators); dataset size, start offset and index rebasing follow the flag; fill value installed "
    "before any dataset creation. R4: who-may-configure the property list (aliases of dataset_prop followed). R5: every path to "
    "H5Dcreate2 in digital_rf_create_hdf5_file creates the data space anew from this call's dims[0] (must-pass). R6 (= C04.R9): the "
    "target file, its capacity and the samples left in it - from which the slot of a write is computed - are written only by the "
    "naming function of the sample, never from mutable writer state. Does NOT "
    "decide HDF5's own fill behaviour or slot counting.")
TECHNIQUE = ("clang JSON AST; concrete interpretation of one function's CFG over a finite domain with an oracle for external "
             "calls (decision table by evaluation); flag truth tables; CFG must-pass; who-may-call table")
ASSUMPTIONS = ["HDF5 returns the property list's fill value for unwritten slots of a dataset created with it",
               "two's complement integers; clang 14 AST is faithful"]
FILES = [C_LIB]
