"""C07 -- Continuous-mode gap fill semantics (partial).

Decides: the fill-value table of digital_rf_set_fill_value by constant evaluation against the documented
missing-data values (NaN / most negative / zero, byte-swapped image when orders differ, both complex
components, compound type for complex), exhaustiveness, the representation switch (needs_chunking) and who may
configure the dataset creation property list.  Not decided: that HDF5 returns the fill value for unwritten slots.
"""
from __future__ import annotations

import math
import re

from ..core import Rule, AnalysisError, C_LIB
from .. import cfront, clib, cfg as _cfg

LIB = C_LIB
OBJ = clib.OBJ
F = "digital_rf_set_fill_value"
SIZES = {"int8_t": 1, "int16_t": 2, "int32_t": 4, "int64_t": 8, "uint8_t": 1, "uint16_t": 2, "uint32_t": 4,
         "uint64_t": 8, "float": 4, "double": 8, "char": 1, "short": 2, "int": 4, "long long": 8, "long": 8,
         "signed char": 1, "unsigned char": 1}


class Ev(object):
    """Constant evaluation of local initialisers inside one function."""

    def __init__(self, fn):
        self.fn = fn
        self.vars = {d.name: d for d in fn.find("VarDecl")}
        self.records = {d.name: d for d in fn.find("RecordDecl")}

    def value(self, e):
        s = e.strip(casts=True)
        k = s.kind
        if k == "IntegerLiteral":
            return int(s.value)
        if k == "FloatingLiteral":
            return float(s.value)
        if k == "UnaryOperator" and s.opcode == "-":
            v = self.value(s.children[0])
            return None if v is None else -v
        if k == "BinaryOperator" and s.opcode in ("+", "-", "*"):
            a, b = self.value(s.children[0]), self.value(s.children[1])
            if isinstance(a, (int, float)) and isinstance(b, (int, float)):
                return {"+": a + b, "-": a - b, "*": a * b}[s.opcode]
            return None
        if k == "CallExpr" and (s.callee or "").startswith("__builtin_nan"):
            return float("nan")
        if k == "CallExpr" and (s.callee or "").startswith("__builtin_huge_val"):
            return float("inf")
        if k == "DeclRefExpr":
            d = self.vars.get(s.ref)
            if d is not None and d.children:
                return self.value(d.children[-1])
            return None
        if k == "InitListExpr":
            return [self.value(c) for c in s.children]
        if k == "ArraySubscriptExpr":
            base = self.value(s.children[0])
            idx = self.value(s.children[1])
            if isinstance(base, list) and isinstance(idx, int) and 0 <= idx < len(base):
                return base[idx]
            return None
        if k == "ImplicitValueInitExpr":
            return 0
        return None

    def elem_sizes(self, var):
        """byte sizes of the scalar elements of the object: scalar -> [n]; T[k] -> [n]; struct -> [n, n];
        struct[k] -> [n, n]"""
        d = self.vars.get(var)
        if d is None:
            return None
        t = re.sub(r"\[\d+\]", "", d.type).replace("const ", "").replace("volatile ", "").strip()
        if t.startswith("struct "):
            rec = self.records.get(t[7:].strip())
            if rec is None:
                return None
            out = []
            for f in rec.children:
                if f.kind == "FieldDecl":
                    out.append(SIZES.get(f.type.strip()))
            return out
        return [SIZES.get(t)]

    def is_array(self, var):
        d = self.vars.get(var)
        return d is not None and re.search(r"\[\d+\]", d.type) is not None


def cell_conditions(call):
    """Conditions under which the call executes, from enclosing if/switch statements."""
    cond = {}
    child = call
    for a in call.ancestors():
        if a.kind == "FunctionDecl":
            break
        if a.kind == "IfStmt":
            then_b = a.children[1]
            in_then = then_b.begin <= call.begin and call.end <= then_b.end
            atoms = []
            e = a.children[0].strip()
            stack = [e]
            conj = True
            while stack:
                x = stack.pop().strip()
                if x.kind == "BinaryOperator" and x.opcode == "&&":
                    stack.extend(x.children)
                elif x.kind == "BinaryOperator" and x.opcode == "||":
                    conj = False
                else:
                    atoms.append(x)
            for x in atoms:
                if not (x.kind == "BinaryOperator" and x.opcode in ("==", "!=")):
                    continue
                lhs = x.children[0].path()
                rhs_txt = re.sub(r"\s", "", x.children[1].nsrc)
                rv = x.children[1].intval()
                eq = x.opcode == "=="
                if not in_then:
                    if len(atoms) != 1:
                        continue
                    eq = not eq
                elif not conj:
                    continue
                if lhs == "classType" and eq:
                    cond["class"] = rhs_txt
                elif lhs == OBJ + "->is_complex" and rv == 0:
                    cond["complex"] = not eq
                elif lhs == "numBytes" and rv is not None and eq:
                    cond["bytes"] = rv
                elif lhs == "signType" and rhs_txt == "H5T_SGN_NONE":
                    cond["unsigned"] = eq
        elif a.kind == "CaseStmt":
            sw = [x for x in a.ancestors() if x.kind == "SwitchStmt"]
            if sw and sw[0].children[0].path() == "numBytes":
                cond["bytes"] = a.children[0].intval()
        child = a
    return cond


def bswap_min(nbytes):
    """Value of the byte-reversed image of the N-byte minimum, read as a native signed integer."""
    b = (-(1 << (8 * nbytes - 1))).to_bytes(nbytes, "little", signed=True)
    return int.from_bytes(bytes(reversed(b)), "little", signed=True)


def r1_fill_table(repo=None):
    r = Rule("C07.R1", "fill-value table matches the documented missing-data values in every cell (constant evaluation)")
    tu = cfront.lib(repo)
    fn = tu.fn(F)
    ev = Ev(fn)
    calls = fn.calls(("H5Pset_fill_value",))
    if len(calls) < 17:
        raise AnalysisError("%s: %d H5Pset_fill_value call sites, 17 confirmed on the reference tree" % (F, len(calls)))
    cells = set()
    for c in calls:
        cond = cell_conditions(c)
        prop = c.args[0].path()
        tid = c.args[1].path()
        obj = c.args[2].strip(casts=True)
        objexpr = obj.children[0].strip(casts=True) if obj.kind == "UnaryOperator" and obj.opcode == "&" else None
        site = "%s:%s %s cell %s" % (LIB, c.line, F, sorted(cond.items()))
        cons = "H5Pset_fill_value(%s, %s) for %s" % (c.args[1].nsrc, c.args[2].nsrc, sorted(cond.items()))
        if objexpr is None or prop != OBJ + "->dataset_prop":
            r.violation(LIB, F, cons, "unrecognised fill value object / property list", line=c.line)
            continue
        indexed = objexpr.kind == "ArraySubscriptExpr"
        var = (objexpr.children[0].path() if indexed else objexpr.path())
        idx = objexpr.children[1].path() if indexed else None
        sizes = ev.elem_sizes(var)
        d = ev.vars.get(var)
        full = ev.value(d.children[-1]) if d is not None and d.children else None
        cls = cond.get("class")
        cplx = cond.get("complex")
        nb = cond.get("bytes")
        uns = cond.get("unsigned")
        probs = []
        if cls not in ("H5T_FLOAT", "H5T_INTEGER") or cplx is None:
            r.violation(LIB, F, cons, "cell conditions not recognised (class/complex)", line=c.line)
            continue
        # type id
        want_tid = OBJ + ("->complex_dtype_id" if cplx else "->dtype_id")
        if tid != want_tid:
            probs.append("type id %s passed, %s expected for %s data" % (tid, want_tid, "complex" if cplx else "real"))
        ncomp = 2 if cplx else 1
        if cls == "H5T_FLOAT":
            want = [float("nan")] * ncomp
            vals = full if isinstance(full, list) else [full]
            if indexed:
                probs.append("float fill must not depend on byte order")
            if len(vals) != ncomp or not all(isinstance(v, float) and math.isnan(v) for v in vals):
                probs.append("value %r is not NaN in every component" % (vals,))
            if not sizes or any(s != nb for s in sizes) or len(sizes) != ncomp:
                probs.append("object element sizes %s do not match %s-byte %s" % (sizes, nb, "complex" if cplx else "real"))
            cells.add(("f", nb, cplx))
        else:
            if uns is None and not cplx:
                uns = False
            if uns:
                vals = full if isinstance(full, list) else [full]
                if isinstance(vals, list) and vals and isinstance(vals[0], list):
                    probs.append("unsigned fill must not depend on byte order")
                if not all(v == 0 for v in vals):
                    probs.append("unsigned fill value %r is not zero" % (vals,))
                if cplx:
                    if not sizes or len(sizes) != 2 or any(s != nb for s in sizes):
                        probs.append("object fields %s do not match two %s-byte components" % (sizes, nb))
                    cells.add(("u", nb, True))
                else:
                    if not sizes or sizes[0] is None or sizes[0] < 8:
                        probs.append("object of %s bytes may be smaller than the HDF5 type (over-read)" % sizes)
                    for n_ in (1, 2, 4, 8):
                        cells.add(("u", n_, False))
            else:
                if nb is None:
                    probs.append("signed integer cell without a byte count")
                else:
                    mn = -(1 << (8 * nb - 1))
                    if nb == 1:
                        want_rows = None
                        want_val = [mn] * ncomp
                        vals = full if isinstance(full, list) else [full]
                        if indexed:
                            vals = None
                            probs.append("1-byte fill must not be indexed")
                        elif vals != want_val:
                            probs.append("value %r, expected %r (most negative 1-byte value)" % (vals, want_val))
                    else:
                        if not indexed or idx != "endian_flip":
                            probs.append("multi-byte signed fill must be selected by endian_flip (got index %r)" % idx)
                        want_rows = [[mn] * ncomp, [bswap_min(nb)] * ncomp] if cplx else [mn, bswap_min(nb)]
                        if full != want_rows:
                            probs.append("table %r, expected %r ([matching order: minimum], [swapped order: byte-reversed "
                                         "image of the minimum])" % (full, want_rows))
                    if not sizes or len(sizes) != ncomp or any(s != nb for s in sizes):
                        probs.append("object element sizes %s do not match %d-byte %s" % (sizes, nb, "complex" if cplx else "real"))
                    cells.add(("i", nb, cplx))
        if probs:
            r.violation(LIB, F, cons, "; ".join(probs) + " (unwritten slots would not read as the documented missing-data value)",
                        line=c.line)
        else:
            r.ok(site, "object %s = %r, element sizes %s, type id %s" % (var, full, sizes, tid.split("->")[-1]))
    # endian_flip is set exactly when host order and file order disagree
    g = _cfg.build_c(fn)
    sets = [n for n in g.nodes if n.kind == "stmt" and n.ast.kind == "BinaryOperator" and n.ast.opcode == "="
            and n.ast.children[0].path() == "endian_flip" and n.ast.children[1].intval() == 1]
    inits = [n for n in g.nodes if n.kind == "stmt" and n.ast.kind == "BinaryOperator" and n.ast.opcode == "="
             and n.ast.children[0].path() == "endian_flip" and n.ast.children[1].intval() == 0]
    others = [n for p, n, rhs, k in clib.stores(fn) if p == "endian_flip" and not (k == "=" and rhs.intval() in (0, 1))]
    combos = set()
    for s_ in sets:
        little = None
        order = None
        for a in s_.ast.ancestors():
            if a.kind == "IfStmt" and a.children[1].begin <= s_.ast.begin <= a.children[1].end:
                for x in a.children[0].walk():
                    if x.kind == "CallExpr" and x.callee == "digital_rf_is_little_endian":
                        neg = any(p.kind == "UnaryOperator" and p.opcode == "!" for p in x.ancestors()
                                  if p.begin >= a.children[0].begin and p.end <= a.children[0].end)
                        little = not neg
                    if x.kind == "BinaryOperator" and x.opcode == "==" and x.children[0].path() == "write_endian":
                        order = re.sub(r"\s", "", x.children[1].nsrc)
        combos.add((little, order))
    if combos == {(True, "H5T_ORDER_BE"), (False, "H5T_ORDER_LE")} and inits and not others:
        r.ok("%s %s endian_flip" % (LIB, F), "initialised to 0 and set to 1 exactly for (little-endian host, BE data) and "
             "(big-endian host, LE data)")
    else:
        r.violation(LIB, F, "endian_flip set under %s" % sorted(combos, key=str), "endian_flip must be 1 exactly when host byte "
                    "order and data byte order differ", line=(sets[0].line if sets else fn.line))
    # write_endian is the order of dtype_id
    we = [rhs for p, n, rhs, k in clib.stores(fn) if p == "write_endian" and rhs is not None]
    if len(we) == 1 and re.sub(r"\s", "", we[0].nsrc) == "H5Tget_order(%s->dtype_id)" % OBJ:
        r.ok("%s %s write_endian" % (LIB, F), "= H5Tget_order(dtype_id)")
    else:
        r.violation(LIB, F, "write_endian = %s" % [x.nsrc for x in we], "data byte order is not taken from dtype_id", line=fn.line)
    r._cells = cells
    r.guard(19)
    return r


def r2_exhaustive(repo=None):
    r = Rule("C07.R2", "every element type the extension can produce has a fill cell")
    r1 = r1_fill_table(repo)
    cells = r1._cells
    missing = []
    for cplx in (False, True):
        for nb in (4, 8):
            if ("f", nb, cplx) not in cells:
                missing.append(("float", nb, cplx))
        for nb in (1, 2, 4, 8):
            for k in ("i", "u"):
                if (k, nb, cplx) not in cells:
                    missing.append((k, nb, cplx))
    if missing:
        for m in missing:
            r.violation(LIB, F, "no fill cell for %r" % (m,), "a type accepted by the writer reaches the error exit of "
                        "digital_rf_set_fill_value (or gets no fill value)")
    else:
        r.ok("%s %s" % (LIB, F), "all 20 (class, size, real/complex) cells of the dtype table have a fill value")
    r.guard(1)
    return r


def _eval_bool(e, env):
    s = e.strip()
    if s.kind == "BinaryOperator" and s.opcode == "&&":
        return _eval_bool(s.children[0], env) and _eval_bool(s.children[1], env)
    if s.kind == "BinaryOperator" and s.opcode == "||":
        return _eval_bool(s.children[0], env) or _eval_bool(s.children[1], env)
    if s.kind == "UnaryOperator" and s.opcode == "!":
        return not _eval_bool(s.children[0], env)
    if s.kind == "BinaryOperator" and s.opcode in ("==", "!="):
        p = s.children[0].path()
        v = s.children[1].intval()
        if p is None or v is None:
            raise AnalysisError("cannot evaluate condition %s" % s.nsrc)
        name = p.split("->")[-1]
        if name not in env:
            raise AnalysisError("condition reads unexpected variable %s" % p)
        return (env[name] == v) if s.opcode == "==" else (env[name] != v)
    p = s.path()
    if p is not None and p.split("->")[-1] in env:
        return bool(env[p.split("->")[-1]])
    raise AnalysisError("cannot evaluate condition %s" % s.nsrc)


def r3_representation_switch(repo=None):
    r = Rule("C07.R3", "the dense (fill-value) representation is used exactly for continuous, uncompressed, unchecksummed data")
    tu = cfront.lib(repo)
    ctor = tu.fn("digital_rf_create_write_hdf5")
    st = clib.field_stores(tu, "needs_chunking")
    if any(f != ctor.name for f, *_ in st) or len(st) != 2:
        x = [s for s in st if s[0] != ctor.name] or st
        r.violation(LIB, x[0][0] if x else ctor.name, "needs_chunking stored %d times" % len(st), "the representation flag "
                    "must be decided once, in the constructor", line=x[0][1].line if x else ctor.line)
    else:
        ifs = [a for a in st[0][1].ancestors() if a.kind == "IfStmt"]
        if not ifs:
            raise AnalysisError("needs_chunking is not assigned under an if statement")
        cond = ifs[0].children[0]
        then_v = [s for s in st if ifs[0].children[1].begin <= s[1].begin <= ifs[0].children[1].end]
        else_v = [s for s in st if s not in then_v]
        ok = len(then_v) == 1 and len(else_v) == 1 and then_v[0][2].intval() == 1 and else_v[0][2].intval() == 0
        table_ok = ok
        if ok:
            for cs in (0, 1):
                for cl in (0, 5):
                    for ic in (0, 1):
                        got = _eval_bool(cond, {"checksum": cs, "compression_level": cl, "is_continuous": ic})
                        want = bool(cs) or cl != 0 or ic != 1
                        if got != want:
                            table_ok = False
        if table_ok:
            r.ok("%s:%s %s needs_chunking" % (LIB, ifs[0].line, ctor.name), "= checksum || compression_level != 0 || "
                 "!is_continuous over all 8 flag combinations; stored once")
        else:
            r.violation(LIB, ctor.name, "needs_chunking = (%s)" % cond.nsrc, "the dense representation must be selected exactly "
                        "when continuous && no compression && no checksum", line=ifs[0].line)
    # use sites
    cf = tu.fn("digital_rf_create_hdf5_file")
    def if_on_flag(fn, target):
        out = []
        for p, n, rhs, k in clib.stores(fn):
            if p == target and k == "=":
                for a in n.ancestors():
                    if a.kind == "IfStmt":
                        c = a.children[0].strip()
                        if c.path() == OBJ + "->needs_chunking":
                            out.append((a, n, rhs, a.children[1].begin <= n.begin <= a.children[1].end))
                        break
        return out
    nr = if_on_flag(cf, "num_rows")
    want = {True: "samples_to_write", False: "max_samples_this_file"}
    got = {t: rhs.path() for a, n, rhs, t in nr}
    if got == want:
        r.ok("%s:%s %s num_rows" % (LIB, nr[0][0].line, cf.name), "samples_to_write when chunked, max_samples_this_file when dense")
    else:
        r.violation(LIB, cf.name, "num_rows under needs_chunking: %s" % got, "dataset size does not follow the representation flag "
                    "(a dense file must expose every slot of its window)", line=cf.line)
    di = if_on_flag(cf, OBJ + "->dataset_index")
    gotd = {t: (rhs.intval() if rhs.intval() is not None else re.sub(r"\s", "", rhs.nsrc)) for a, n, rhs, t in di}
    if gotd == {True: 0, False: "max_samples_this_file-samples_left"}:
        r.ok("%s:%s %s dataset_index" % (LIB, di[0][0].line, cf.name), "0 when chunked, max - samples_left when dense")
    else:
        r.violation(LIB, cf.name, "dataset_index under needs_chunking: %s" % gotd, "write offset in a new file does not follow "
                    "the representation flag", line=cf.line)
    ci = tu.fn("digital_rf_create_rf_data_index")
    reb = [n for p, n, rhs, k in clib.stores(ci) if k == "-=" and (p or "").startswith("ret_arr")]
    if len(reb) != 1:
        r.violation(LIB, ci.name, "%d rebasing statements" % len(reb), "index row rebasing idiom not found", line=ci.line)
    else:
        ifs = [a for a in reb[0].ancestors() if a.kind == "IfStmt"]
        cond = ifs[0].children[0]
        ok = True
        for ic in (0, 1):
            for nc in (0, 1):
                if _eval_bool(cond, {"is_continuous": ic, "needs_chunking": nc}) != (bool(ic) and not nc):
                    ok = False
        rhs = [rhs for p, n, rhs, k in clib.stores(ci) if n is reb[0]][0]
        if ok and re.sub(r"\s", "", rhs.nsrc) == "max_samples_this_file-samples_left":
            r.ok("%s:%s %s" % (LIB, reb[0].line, ci.name), "first index row rebased by (max - samples_left) exactly when dense")
        else:
            r.violation(LIB, ci.name, "rebasing under (%s) by %s" % (cond.nsrc, rhs.nsrc), "index row rebasing does not follow the "
                        "representation flag", line=reb[0].line)
    # fill value attached before any dataset is created: constructor passes set_fill_value with rejection
    g = _cfg.build_c(ctor)
    sf = [n for n in g.nodes if n.ast is not None and n.ast.calls((F,))]
    succ = [n for n in g.nodes if n.kind == "return" and n.ast.children and n.ast.children[0].path() == "hdf5_data_object"]
    if sf and succ and all(s.id not in g.reach([g.entry.id], avoid=[x.id for x in sf]) for s in succ) and all(
            x.kind == "cond" for x in sf) and not any(s.id in g.reach([b for b, l in g.succ[sf[0].id] if l == "T"]) for s in succ):
        r.ok("%s:%s %s" % (LIB, sf[0].line, ctor.name), "digital_rf_set_fill_value runs (and its failure rejects) before the "
             "constructor succeeds, i.e. before any H5Dcreate2")
    else:
        r.violation(LIB, ctor.name, "constructor can succeed without digital_rf_set_fill_value", "datasets could be created "
                    "without the documented fill value", line=ctor.line)
    r.guard(5)
    return r


PROP_SITES = {("digital_rf_create_write_hdf5", "H5Pset_deflate"), ("digital_rf_create_write_hdf5", "H5Pset_filter"),
              ("digital_rf_set_fill_value", "H5Pset_fill_value"), ("digital_rf_write_blocks_hdf5", "H5Pset_chunk"),
              ("digital_rf_free_hdf5_data_object", "H5Pclose"), ("digital_rf_create_hdf5_file", "H5Dcreate2")}


def r4_property_list_owners(repo=None):
    r = Rule("C07.R4", "the dataset creation property list (fill value, fill time, allocation) is configured only at construction")
    tu = cfront.lib(repo)
    n = 0
    for fname, fn in tu.functions.items():
        for c in fn.calls():
            if any(a.path() == OBJ + "->dataset_prop" for a in c.args):
                n += 1
                if (fname, c.callee) in PROP_SITES:
                    r.ok("%s:%s %s %s" % (LIB, c.line, fname, c.callee), "expected use of dataset_prop")
                else:
                    r.violation(LIB, fname, c.nsrc[:90], "the dataset creation property list is modified outside the constructor "
                                "(fill value / fill time / allocation settings decide what unwritten slots read as)", line=c.line)
    if n < 20:
        raise AnalysisError("only %d uses of dataset_prop found" % n)
    r.guard(20)
    return r


def rules(repo=None):
    return [lambda: r1_fill_table(repo), lambda: r2_exhaustive(repo), lambda: r3_representation_switch(repo),
            lambda: r4_property_list_owners(repo)]


EXPLANATION = (
    "R1: for each of the 17 H5Pset_fill_value call sites the cell (class, real/complex, byte count, signedness) is read off "
    "the enclosing if/switch conditions, the object whose address is passed is resolved and its initialiser evaluated "
    "(integer constant expressions, NAN); oracle from the property: float -> NaN in every component, unsigned -> 0, signed N "
    "bytes -> minimum when orders match and its byte-reversed image when they differ (selected by endian_flip), complex -> both "
    "fields and the compound type id, object at least as large as the HDF5 type; endian_flip is 1 exactly when host and data "
    "order differ. R2: all 20 cells exist. R3: needs_chunking truth table over 8 flag combinations; dataset size, start offset "
    "and index rebasing follow it; fill value installed before any dataset creation. R4: who-may-configure the property list. "
    "Does NOT decide HDF5's own fill behaviour or slot counting.")
ASSUMPTIONS = ["HDF5 returns the property list's fill value for unwritten slots of a dataset created with it",
               "two's complement integers; clang 14 AST is faithful"]
FILES = [C_LIB]
