"""Role-based anchors in ringbuffer.py: the hook methods of the handler base class and of the limit mixins are found by
what they do (queue insertion, queue removal, record store, ...), so consistent renames of these private methods do not
move the anchors.  Class names and the public API are taken by name."""
from __future__ import annotations

import ast

from ..core import AnalysisError, norm
from .. import pyfront

BASE = "DigitalRFRingbufferHandlerBase"
_CACHE = {}


def _queue_locals(f):
    return {x.targets[0].id for x in pyfront.walk_no_nested(f) if isinstance(x, ast.Assign) and isinstance(x.targets[0], ast.Name)
            and norm(ast.unparse(x.value)).startswith("self.queues[")}


def _calls_on_queue(f, attrs):
    ql = _queue_locals(f)
    out = []
    for c in pyfront.walk_no_nested(f):
        if isinstance(c, ast.Call) and isinstance(c.func, ast.Attribute) and c.func.attr in attrs:
            recv = norm(ast.unparse(c.func.value))
            if recv in ql or recv.startswith("self.queues["):
                out.append(c)
    return out


class Roles(object):
    def __init__(self, repo=None):
        m = self.m = pyfront.mod("ringbuffer", repo)
        bm = self.base_methods = m.methods(BASE)
        # mixins: the other classes of the module whose methods call super().<something> and that are not the application class
        self.mixins = []
        for cname, c in m.classes.items():
            if "." in cname or cname == BASE:
                continue
            meths = m.methods(cname)
            if any(isinstance(x, ast.Call) and (pyfront.call_name(x) or "").startswith("super().") and pyfront.call_name(x) != "super().__init__"
                   for f in meths.values() for x in ast.walk(f)):
                self.mixins.append(cname)
        if len(self.mixins) < 3:
            raise AnalysisError("ringbuffer: %d limit mixins found, 3 confirmed on the reference tree" % len(self.mixins))

        def one(role, names):
            if len(names) != 1:
                raise AnalysisError("%s: role `%s` resolved to %s" % (BASE, role, sorted(names)))
            return names[0]
        self.enq = one("insert into the time-ordered queue", [n for n, f in bm.items() if _calls_on_queue(f, ("append", "appendleft", "insert"))])
        self.deq = one("remove from the queue", [n for n, f in bm.items() if _calls_on_queue(f, ("remove",)) and n != self.enq])

        def stores_record(f):
            return any(isinstance(x, ast.Assign) and isinstance(x.targets[0], ast.Subscript) and norm(ast.unparse(x.targets[0].value)) == "self.records"
                       for x in pyfront.walk_no_nested(f))

        def pops_record(f):
            return any(isinstance(x, ast.Call) and pyfront.call_name(x) == "self.records.pop" for x in pyfront.walk_no_nested(f))

        def head_subscript(f):
            return any(isinstance(x, ast.Subscript) and (isinstance(pyfront.const(x.slice), int) or (
                isinstance(x.slice, ast.UnaryOp) and isinstance(x.slice.op, ast.USub))) and (
                norm(ast.unparse(x.value)).startswith("self.queues[") or norm(ast.unparse(x.value)) in _queue_locals(f))
                for x in pyfront.walk_no_nested(f))
        self.add_record = one("store a record and queue it", [n for n, f in bm.items() if stores_record(f) and any(
            isinstance(x, ast.Call) and pyfront.call_name(x) == "self." + self.enq for x in pyfront.walk_no_nested(f))])
        self.expire_head = one("expire the head of a group's queue", [n for n, f in bm.items() if pops_record(f) and head_subscript(f)])
        self.remove_record = one("remove a record by path", [n for n, f in bm.items() if pops_record(f) and n != self.expire_head])
        self.modify = one("modify a record", [n for n, f in bm.items() if n != self.add_record and any(
            isinstance(x, ast.Call) and pyfront.call_name(x) == "self." + self.add_record for x in pyfront.walk_no_nested(f))
            and not n.startswith("on_") and n not in ("add_files", "modify_files", "remove_files") and not any(
                isinstance(x, (ast.For, ast.While)) for x in pyfront.walk_no_nested(f))])
        over = None
        for n in bm:
            if n in ("__init__", "status"):
                continue
            if all(n in m.methods(mx) for mx in self.mixins):
                over = n if over is None else over
        if over is None:
            raise AnalysisError("%s: no hook overridden by every mixin (the limit enforcement hook)" % BASE)
        self.expire = over
        self.make_record = one("build a FileRecord", [n for n, f in bm.items() if any(
            isinstance(x, ast.Call) and (pyfront.call_name(x) or "").endswith("FileRecord") for x in ast.walk(f))])
        sizes = [mx for mx in self.mixins if any(isinstance(x, ast.AugAssign) and pyfront.dotted(x.target) == "self.active_size"
                                                for f in m.methods(mx).values() for x in ast.walk(f))]
        self.size_mixin = one("size accounting mixin", sizes)
        self.hooks = {self.enq, self.deq, self.add_record, self.expire_head, self.remove_record, self.modify, self.expire, self.make_record}

    def q(self, name):
        return "%s.%s" % (BASE, name)


def roles(repo=None):
    m = pyfront.mod("ringbuffer", repo)
    if id(m) not in _CACHE:
        _CACHE[id(m)] = Roles(repo)
    return _CACHE[id(m)]
