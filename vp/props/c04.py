"""C04 -- Deterministic time-partitioned file layout.

Decides: integer-only and pure naming slice (clang types), floor/ceil pairing by callee and def-use identity,
new-file-on-name-change, cadence rule at both constructors, name-format agreement.  Not decided: that
floor/ceil are computed correctly (value-level, see C03).
"""
from __future__ import annotations

import ast
import re

from ..core import Rule, AnalysisError, C_LIB, norm
from .. import cfront, clib, cfg as _cfg, pyfront, pyutil

LIB = C_LIB
OBJ = clib.OBJ
NAMING = ["digital_rf_get_subdir_file", "digital_rf_get_timestamp_floor", "digital_rf_get_sample_ceil",
          "digital_rf_get_unix_time_rational", "digital_rf_get_time_parts"]
MATH = {"floor", "ceil", "floorl", "ceill", "fmod", "fmodl", "round", "roundl", "lround", "llround", "trunc", "truncl",
        "floorf", "ceilf", "rint", "nearbyint", "pow", "powl", "modf", "modfl", "ldexp", "frexp"}
ALLOWED_CALLS = set(NAMING) | {"snprintf", "fprintf"}


# the clock, the environment - and the C library's calendar functions: gmtime / localtime hand back one static buffer shared by
# all threads and consult the TZ database (a "right/..." zone subtracts leap seconds even for gmtime), the _r variants are
# reentrant but still read TZ.  gmtime was on the allow-list above until the second defect hunt (F48).
IMPURE_CALLS = ("time", "gettimeofday", "clock_gettime", "rand", "random", "getenv",
                "gmtime", "localtime", "gmtime_r", "localtime_r", "mktime", "timegm", "ctime", "asctime", "strftime")
PY_IMPURE_TIME = ("fromtimestamp", "utcfromtimestamp", "gmtime", "localtime", "mktime", "ctime")


def pure_helper(tu, name, seen=None):
    """A library function that is a function of its arguments only: no writer object, no globals or static locals, no clock,
    calls only <math.h> or other pure helpers (results through pointer parameters are fine)."""
    seen = seen if seen is not None else set()
    if name in seen:
        return True
    seen.add(name)
    fn = tu.functions.get(name)
    if fn is None:
        return False
    params = [p for p in fn.children if p.kind == "ParmVarDecl"]
    if any("Digital_rf_write_object" in p.type for p in params):
        return False
    local = {p.name for p in params}
    for d in fn.find("VarDecl"):
        if d.d.get("storageClass") == "static":
            return False
        local.add(d.name)
    for x in fn.walk():
        if x.kind == "DeclRefExpr" and x.refkind in ("VarDecl", "ParmVarDecl") and x.ref not in local:
            return False
        if x.kind == "CallExpr":
            if x.callee in IMPURE_CALLS:
                return False
            if x.callee in tu.functions:
                if not pure_helper(tu, x.callee, seen):
                    return False
            elif x.callee not in MATH and x.callee not in ("fprintf", "snprintf", "gmtime"):
                return False
    return True


def naming_set(tu):
    """the naming functions plus the pure helpers they (transitively) call"""
    out = list(NAMING)
    work = list(NAMING)
    while work:
        fn = tu.fn(work.pop())
        for c in fn.calls():
            if c.callee in tu.functions and c.callee not in out and pure_helper(tu, c.callee):
                out.append(c.callee)
                work.append(c.callee)
    return out


def alias_path(fn, node):
    """path of `node`, seen through a const local that is a plain copy of an access path (const uint64_t n = obj->field)"""
    s = node.strip(casts=True)
    p = s.path()
    if p is None or "->" in p or "[" in p:
        return p
    defs = _single_def(fn, p)
    if len(defs) == 1:
        q = defs[0][1].strip(casts=True).path()
        if q and "->" in q and not any(path == p for path, n_, rhs, kind in clib.stores(fn)):
            return q
    return p


def _node_of(g, ast_node):
    best = None
    for n in g.nodes:
        if n.ast is None or n.kind not in ("stmt", "cond", "return"):
            continue
        if n.ast.begin <= ast_node.begin and ast_node.end <= n.ast.end:
            if best is None or (n.ast.end - n.ast.begin) < (best.ast.end - best.ast.begin):
                best = n
    return best


def output_slice(fn):
    """Backward slice (flow-insensitive def-use closure) of the function's outputs: stores through pointer
    parameters, snprintf into parameter buffers, return values.  Returns (relevant names, expression nodes)."""
    params = [p for p in fn.children if p.kind == "ParmVarDecl"]
    ptr_params = {p.name for p in params if p.type.rstrip().endswith("*") and "Digital_rf_write_object" not in p.type}
    exprs = []
    rel = set()
    allstores = clib.stores(fn)
    for path, node, rhs, kind in allstores:
        if path is None:
            continue
        base = path.lstrip("*").split("[")[0].split("->")[0]
        if base in ptr_params and (path.startswith("*") or kind.startswith("call:")):
            if kind.startswith("call:"):
                exprs.extend(node.args[1:])
            elif rhs is not None:
                exprs.append(rhs)
            if kind not in ("=",) and not kind.startswith("call:"):
                rel.add(path)
    for ret in fn.find("ReturnStmt"):
        exprs.extend(ret.children)
    # address-of locals passed to naming callees are outputs of those callees: relevant if later read
    seen = set()
    work = list(exprs)
    conds = []
    while work:
        e = work.pop()
        if id(e) in seen:
            continue
        seen.add(id(e))
        for x in e.walk():
            p = None
            if x.kind == "DeclRefExpr" and x.refkind in ("VarDecl", "ParmVarDecl"):
                p = x.ref
            if p and p not in rel:
                rel.add(p)
                for path, node, rhs, kind in allstores:
                    if path is None:
                        continue
                    base = path.lstrip("*&").split("[")[0].split("->")[0].split(".")[0]
                    if base == p and rhs is not None:
                        work.append(rhs)
                        if kind not in ("=",):
                            work.append(node)
                for d in fn.find("VarDecl"):
                    if d.name == p and d.children:
                        work.append(d.children[-1])
    return rel, [e for e in exprs] , seen


def r1_integer_only(repo=None):
    r = Rule("C04.R1", "file/sub-directory names and sample<->time conversions use integer arithmetic only (typed slice)")
    tu = cfront.lib(repo)
    for fname in naming_set(tu):
        fn = tu.fn(fname)
        rel, outs, _ = output_slice(fn)
        # expressions in the slice: all stores to relevant variables + outputs
        nodes = list(outs)
        for path, node, rhs, kind in clib.stores(fn):
            if path is None:
                continue
            base = path.lstrip("*&").split("[")[0].split("->")[0].split(".")[0]
            if base in rel:
                nodes.append(node)
        for d in fn.find("VarDecl"):
            if d.name in rel and d.children:
                nodes.append(d.children[-1])
        # conditions guarding returns are part of the outputs' control dependence
        for n in fn.walk():
            if n.kind == "IfStmt":
                nodes.append(n.children[0])
        bad = None
        for e in nodes:
            for x in e.walk():
                if x.kind in ("FloatingLiteral",) or (x.kind not in ("DeclRefExpr",) and x.is_float()):
                    bad = (x, "expression of floating type `%s`" % x.type)
                    break
                if x.kind == "CallExpr" and x.callee in MATH:
                    bad = (x, "call into <math.h>: %s" % x.callee)
                    break
                if x.kind == "MemberExpr" and x.name == "sample_rate":
                    bad = (x, "read of the long double `sample_rate` field")
                    break
                if x.kind == "DeclRefExpr" and x.is_float():
                    bad = (x, "floating variable `%s`" % x.ref)
                    break
            if bad:
                break
        site = "%s:%s %s (%d slice expressions, %d relevant variables)" % (LIB, fn.line, fname, len(nodes), len(rel))
        if bad:
            x, why = bad
            r.violation(LIB, fname, x.nsrc[:80], "floating point in the naming/conversion slice: %s (rounding moves samples "
                        "near a file boundary into the wrong file)" % why, line=x.line)
        else:
            r.ok(site, "no floating-typed node, <math.h> call or sample_rate read in the slice of the outputs")
    r.guard(5)
    return r


def r2_pure_function(repo=None):
    r = Rule("C04.R2", "names are a pure function of (sample index, rate, cadences)")
    tu = cfront.lib(repo)
    names = naming_set(tu)
    for fname in names:
        fn = tu.fn(fname)
        bad = []
        for x in fn.walk():
            if x.kind == "MemberExpr" and (x.children and x.children[0].path() == OBJ):
                if x.name not in clib.CONFIG_FIELDS:
                    bad.append((x, "reads writer state field `%s` (not a configuration field)" % x.name))
            if x.kind == "CallExpr" and x.callee not in ALLOWED_CALLS and x.callee not in names:
                if x.callee in IMPURE_CALLS:
                    bad.append((x, "calls %s()" % x.callee))
                elif x.callee in tu.functions:
                    bad.append((x, "calls %s(), which is not a naming function" % x.callee))
        for path, node, rhs, kind in clib.stores(fn):
            if path and path.startswith(OBJ + "->"):
                bad.append((node, "stores writer state `%s`" % path))
        if bad:
            for x, why in bad:
                r.violation(LIB, fname, x.nsrc[:80], "the naming function %s: the name would depend on history or time, "
                            "not only on the sample index" % why, line=x.line)
        else:
            r.ok("%s:%s %s" % (LIB, fn.line, fname), "reads only its parameters and the configuration fields %s; no "
                 "state store, no clock" % sorted(clib.CONFIG_FIELDS))
    # configuration fields are write-once (constructor only)
    for f in sorted(clib.CONFIG_FIELDS):
        st = clib.field_stores(tu, f)
        where = {fn for fn, *_ in st}
        if where == {"digital_rf_create_write_hdf5"} and len(st) == 1:
            r.ok("%s field %s" % (LIB, f), "stored exactly once, in the constructor")
        else:
            for fn_, node, rhs, kind in st:
                if fn_ != "digital_rf_create_write_hdf5":
                    r.violation(LIB, fn_, node.nsrc[:80], "configuration field `%s` is modified after construction: file names "
                                "of later samples would no longer be a function of the channel parameters" % f, line=node.line)
            if len(st) != 1 and where == {"digital_rf_create_write_hdf5"}:
                r.violation(LIB, "digital_rf_create_write_hdf5", "%d stores to %s" % (len(st), f),
                            "configuration field stored more than once", line=st[0][1].line)
    # the Python side builds the same names (reader: which sub-directories to look in; metadata writer / reader): a sub-directory
    # timestamp is turned into text by arithmetic on the epoch, not by the platform's gmtime (datetime.fromtimestamp(ts, tz=utc) goes
    # through it)
    import ast as _ast
    from .. import pyfront
    for mod_name in ("digital_rf_hdf5", "digital_metadata"):
        pm = pyfront.mod(mod_name, repo)
        for q, f in pm.functions.items():
            if "<locals>" in q:
                continue
            fmts = [c for c in pyfront.walk_no_nested(f) if isinstance(c, _ast.Call) and isinstance(c.func, _ast.Attribute) and c.func.attr == "strftime"
                    and c.args and isinstance(pyfront.const(c.args[0]), str) and "%Y-%m-%dT%H-%M-%S" in pyfront.const(c.args[0])]
            if not fmts:
                continue
            badc = [c for c in pyfront.walk_no_nested(f) if isinstance(c, _ast.Call) and isinstance(c.func, _ast.Attribute) and c.func.attr in PY_IMPURE_TIME]
            site = "%s:%s %s" % (pm.rel, fmts[0].lineno, q)
            if badc:
                r.violation(pm.rel, q, norm(_ast.unparse(badc[0]))[:80], "the sub-directory name is rendered through the platform's "
                            "gmtime (%s): under a leap-second (`right/...`) time zone it comes out 27 s early, so names depend on the "
                            "process environment and data written on one host cannot be found from another" % badc[0].func.attr, line=badc[0].lineno)
            else:
                r.ok(site, "sub-directory names are rendered from epoch arithmetic (no fromtimestamp / gmtime)")
    r.guard(10)
    return r


def _single_def(fn, var):
    defs = [(node, rhs) for path, node, rhs, kind in clib.stores(fn) if path == var]
    for d in fn.find("VarDecl"):
        if d.name == var and d.children and d.children[-1].kind not in ("IntegerLiteral",):
            defs.append((d, d.children[-1]))
    return defs


def _divmod_of(fn, var):
    """If var has the single definition X / 1000 or X % 1000 returns (op, X-path)."""
    defs = _single_def(fn, var)
    if len(defs) != 1:
        return None
    rhs = defs[0][1].strip(casts=True)
    if rhs.kind == "BinaryOperator" and rhs.opcode in ("/", "%") and rhs.children[1].intval() == 1000:
        return rhs.opcode, rhs.children[0].path()
    return None


def r3_floor_ceil_pairing(repo=None):
    r = Rule("C04.R3", "sample->time uses the floor helper, file-boundary->sample uses the ceil helper on the printed name")
    tu = cfront.lib(repo)
    fn = tu.fn("digital_rf_get_subdir_file")
    floors = fn.calls(("digital_rf_get_timestamp_floor",))
    ceils = fn.calls(("digital_rf_get_sample_ceil",))
    F = "digital_rf_get_subdir_file"
    ABS = {"global_sample": 1, OBJ + "->global_start_sample": 1}      # the sample counted from 1970: parameter + start of the channel

    def value_at(node):
        """linear form of the value of `node` over the function's parameters and object fields: the straight-line stores (= and +=)
        of the function's top-level block that precede it are applied; a store under control flow to a name it reads is not decided"""
        body = [c for c in fn.children if c.kind == "CompoundStmt"][0]
        env = {}
        for path, st, rhs, kind in sorted(clib.stores(fn), key=lambda x: x[1].begin):
            if st.begin >= node.begin or path is None or "->" in path or "*" in path or "[" in path:
                continue
            if kind not in ("=", "+="):
                env[path] = None
                continue
            top = st
            while top.parent is not None and top.parent is not body:
                top = top.parent
            straight = top.parent is body and top.kind not in ("IfStmt", "ForStmt", "WhileStmt", "DoStmt", "SwitchStmt")
            lf = clib.linform(rhs) if rhs is not None else None
            if lf is not None:
                sub = {}
                for k, v in lf.items():
                    src = env.get(k, {k: 1}) if k != 1 else {1: 1}
                    if src is None:
                        sub = None
                        break
                    for k2, v2 in src.items():
                        sub[k2] = sub.get(k2, 0) + v * v2
                lf = sub
            if not straight or lf is None:
                env[path] = None
            elif kind == "=":
                env[path] = lf
            else:
                old = env.get(path, {path: 1})
                env[path] = None if old is None else {k: old.get(k, 0) + lf.get(k, 0) for k in set(old) | set(lf)}
        for d in fn.find("VarDecl"):
            if d.children and d.name not in env and d.begin < node.begin:
                lf = clib.linform(d.children[-1])
                if lf is not None and all(k == 1 or k not in env for k in lf):
                    env.setdefault(d.name, lf)
        lf = clib.linform(node)
        if lf is None:
            return None
        out = {}
        for k, v in lf.items():
            src = env.get(k, {k: 1}) if k != 1 else {1: 1}
            if src is None:
                raise AnalysisError("%s: the value of `%s` at line %s depends on a store under control flow" % (F, k, node.line))
            for k2, v2 in src.items():
                out[k2] = out.get(k2, 0) + v * v2
        return {k: v for k, v in out.items() if v != 0}
    if len(floors) != 1:
        raise AnalysisError("%s: %d calls of digital_rf_get_timestamp_floor (one confirmed on the reference tree)" % (F, len(floors)))
    if value_at(floors[0].args[0]) != ABS:
        r.violation(LIB, F, "floor call on `%s`" % floors[0].args[0].nsrc[:40], "the sample's timestamp is not obtained by "
                    "digital_rf_get_timestamp_floor of (global_sample + global_start_sample): value %s" % value_at(floors[0].args[0]),
                    line=floors[0].line)
    else:
        r.ok("%s:%s %s" % (LIB, floors[0].line, F), "sample -> time by digital_rf_get_timestamp_floor(global_sample + global_start_sample, n, d)")
    # the basename snprintf arguments
    sn = [c for c in fn.calls(("snprintf",)) if c.args and c.args[0].path() == "basename"]
    if len(sn) != 1:
        raise AnalysisError("expected one snprintf into basename, found %d" % len(sn))
    locals_ = {d.name for d in fn.find("VarDecl")}

    def canon(node, depth=0):
        """text of an expression with once-defined locals replaced by their definition and the operands of + sorted"""
        n = node.strip(casts=True)
        if n.kind == "BinaryOperator" and n.opcode == "+":
            return "+".join(sorted(canon(ch, depth) for ch in n.children))
        pth = n.path()
        if pth is not None and "->" not in pth and pth.split(".")[0].split("[")[0] in locals_ and depth < 4:     # a local, or a member of a local struct
            defs = _single_def(fn, pth)
            if len(defs) == 1:
                e = defs[0][1].strip(casts=True)
                if (e.kind == "BinaryOperator" and e.opcode == "+") or e.path() is not None:
                    return canon(e, depth + 1)     # a sum (start + cadence) or a plain copy; anything else is a value of its own
        return alias_path(fn, n) or re.sub(r"\s", "", n.nsrc)

    def dmx(node, depth=0):
        """(op, canonical operand) when the expression is X / 1000 or X % 1000, directly or through once-defined locals"""
        if node is None:
            return None
        n = node.strip(casts=True)
        if n.kind == "BinaryOperator" and n.opcode in ("/", "%") and n.children[1].intval() == 1000:
            return n.opcode, canon(n.children[0])
        pth = n.path()
        if pth is not None and "->" not in pth and pth.split(".")[0].split("[")[0] in locals_ and depth < 4:     # a local, or a member of a local struct
            defs = _single_def(fn, pth)
            if len(defs) == 1:
                return dmx(defs[0][1], depth + 1)
        return None
    nargs = sn[0].args[3:]
    if len(nargs) != 2:
        raise AnalysisError("basename snprintf does not take two name parts: %s" % sn[0].nsrc)
    dm = (dmx(nargs[0]), dmx(nargs[1]))
    sec_v, ms_v = (re.sub(r"\s", "", a_.nsrc) for a_ in nargs)
    if not dm[0] or not dm[1]:
        raise AnalysisError("%s: the name parts `%s`, `%s` printed into the file name were not traced to X / 1000 and X %% 1000" % (F, sec_v, ms_v))
    if dm[0][0] != "/" or dm[1][0] != "%" or dm[0][1] != dm[1][1]:
        r.violation(LIB, F, "name parts %s, %s" % (sec_v, ms_v), "the second and millisecond parts of the file name are not "
                    "X/1000 and X%%1000 of one file-start millisecond value", line=sn[0].line)
        return r
    file_ms = dm[0][1]
    r.ok("%s:%s %s" % (LIB, sn[0].line, F), "name parts are %s = %s/1000 and %s = %s%%1000" % (sec_v, file_ms, ms_v, file_ms))
    if len(ceils) != 2:
        r.violation(LIB, F, "%d digital_rf_get_sample_ceil calls" % len(ceils), "the first sample of this file and of the "
                    "next file must each be obtained by digital_rf_get_sample_ceil on the file's boundary time; anything else "
                    "(adding a per-file sample count, flooring) lets neighbouring files claim the same sample or skip one",
                    line=fn.line)
        return r

    def ceil_args(c):
        a1 = c.args[1].strip(casts=True)
        msn = None
        if a1.kind == "BinaryOperator" and a1.opcode == "*" and 1000000000 in (a1.children[0].intval(), a1.children[1].intval()):
            msn = a1.children[0] if a1.children[1].intval() == 1000000000 else a1.children[1]
        out = c.args[4].strip(casts=True)
        outv = out.children[0].path() if out.kind == "UnaryOperator" and out.opcode == "&" else alias_path(fn, out)
        rate = (alias_path(fn, c.args[2]), alias_path(fn, c.args[3]))
        return dmx(c.args[0]), dmx(msn), outv, rate

    next_ms = "+".join(sorted([file_ms, OBJ + "->file_cadence_millisecs"]))
    c_this = c_next = None
    unread = []
    for c in ceils:
        d0, d1, outv, rate = ceil_args(c)
        if rate != (OBJ + "->sample_rate_numerator", OBJ + "->sample_rate_denominator"):
            r.violation(LIB, F, c.nsrc[:80], "ceil helper called with something other than the channel's numerator, "
                        "denominator (in that order)", line=c.line)
            continue
        if d0 == ("/", file_ms) and d1 == ("%", file_ms):
            c_this = (c, outv)      # the same (second, millisecond) split of the file's start time that is printed into the name
        elif d0 == ("/", next_ms) and d1 == ("%", next_ms):
            c_next = (c, outv)
        elif d0 is None or d1 is None:
            unread.append(c)        # (both read but of another quantity: a definite other time, judged below)
    if (c_this is None or c_next is None) and unread:
        # a ceil call whose time arguments this rule could not trace to the name parts: "no such call" cannot be concluded
        raise AnalysisError("%s: the time arguments of `%s` were not traced to the (second, millisecond) printed into the name" % (
            F, unread[0].nsrc[:70]))
    if c_this:
        r.ok("%s:%s %s" % (LIB, c_this[0].line, F), "first sample of this file = ceil(time printed in the name) [%s]" % c_this[1])
    else:
        r.violation(LIB, F, "no ceil call on the printed name parts", "the file's first sample is not computed from the "
                    "same (second, millisecond) that is printed into its name", line=fn.line)
    if c_next:
        r.ok("%s:%s %s" % (LIB, c_next[0].line, F), "first sample of the next file = ceil(name time + file cadence) [%s]" % c_next[1])
    else:
        r.violation(LIB, F, "no ceil call on name time + file_cadence_millisecs", "the next file's first sample is not "
                    "computed by the ceil helper from this file's start plus one file cadence", line=fn.line)
    if c_this and c_next:
        want = {"*samples_left": (c_next[1], "global_sample + global_start_sample"), "*max_samples_this_file": (c_next[1], c_this[1])}
        for path, node, rhs, kind in clib.stores(fn):
            if path in want and kind == "=":
                e = rhs.strip(casts=True)
                got = None
                if e.kind == "BinaryOperator" and e.opcode == "-":
                    if path == "*samples_left":
                        got = (e.children[0].path(), "global_sample + global_start_sample" if value_at(e.children[1]) == ABS else e.children[1].nsrc)
                    else:
                        got = (e.children[0].path(), e.children[1].path())
                if got == want[path]:
                    r.ok("%s:%s %s %s" % (LIB, node.line, F, path), "= %s - (%s)" % want[path])
                else:
                    r.violation(LIB, F, node.nsrc, "%s is not (%s - (%s))" % ((path,) + want[path]), line=node.line)
                want.pop(path)
        for path in want:
            r.violation(LIB, F, "%s not assigned" % path, "output not computed from the two boundary samples", line=fn.line)
    r.guard(5)
    return r


def flag_expression(rhs):
    """formula of a flag assigned a boolean expression (`a && b`, `!(a || b)`, `c ? 1 : 0`, a one-line helper returning one); None
    for anything else"""
    from .. import cbool
    t = rhs.strip(casts=True)
    if t.kind == "ConditionalOperator" and len(t.children) == 3:
        a, b = t.children[1].intval(), t.children[2].intval()
        if (a, b) == (1, 0):
            return cbool.truth(t.children[0])
        if (a, b) == (0, 1):
            return ("not", cbool.truth(t.children[0]))
        return None
    if (t.kind == "BinaryOperator" and t.opcode in ("&&", "||")) or (t.kind == "UnaryOperator" and t.opcode == "!"):
        return cbool.truth(t)
    if t.kind == "CallExpr" and t.callee in t.tu.functions:
        f = cbool.truth(t)
        return f if f[0] != "atom" else None
    return None


def flag_is_one(fn, FE):
    """formula (over cbool atoms) of the states in which the flag is 1: the disjunction of the path conditions of its `= 1` stores,
    or the expression it is assigned"""
    from .. import cbool
    sts = [(node, rhs) for path, node, rhs, kind in clib.stores(fn) if path == FE and rhs is not None]
    exprs = [(node, rhs) for node, rhs in sts if rhs.strip(casts=True).intval() is None]
    if exprs:
        # (an over-approximation of) the states in which the flag is 1: some store of a true value was executed
        parts = []
        for node, rhs in sts:
            iv = rhs.strip(casts=True).intval()
            if iv is not None:
                if iv != 0:
                    parts.append(cbool.path_condition(node, fn))
                continue
            f = flag_expression(rhs)
            if f is None:
                raise AnalysisError("%s: the expression assigned to `%s` is not a boolean expression this rule reads" % (fn.name, FE))
            parts.append(("and", cbool.path_condition(node, fn), f))
        return cbool.disj(parts), exprs[0][0]
    ones = [node for node, rhs in sts if rhs.strip(casts=True).intval() == 1]
    if not ones:
        raise AnalysisError("%s: assignment %s = 1 not found" % (fn.name, FE))
    return cbool.disj([cbool.path_condition(o, fn) for o in ones]), ones[0]


def exists_flag(fn, g=None):
    """the local of the write loop that says "continue in the open file": the plain local tested alone in a condition from
    whose false side digital_rf_create_hdf5_file is reached, and that is only ever assigned integer constants"""
    g = g or _cfg.build_c(fn)
    locals_ = {d.name for d in fn.find("VarDecl")}
    creates = [_node_of(g, c).id for c in fn.calls(("digital_rf_create_hdf5_file",))]
    if not creates:
        raise AnalysisError("%s: call of digital_rf_create_hdf5_file not found" % fn.name)
    cands = set()
    for n in g.nodes:
        if n.kind == "cond" and n.ast is not None and n.ast.path() in locals_:
            fs = [b for b, l in g.succ[n.id] if l == "F"]
            ts = [b for b, l in g.succ[n.id] if l == "T"]
            # the create call directly follows the false side (not reachable from the true side without leaving the iteration's block)
            if any(c in g.reach(fs, avoid=ts) for c in creates):
                v = n.ast.path()
                sts = [rhs for path, node, rhs, kind in clib.stores(fn) if path == v]
                if sts and all(kind_ok.strip(casts=True).intval() is not None for kind_ok in sts):
                    cands.add(v)
                elif sts and all(x_.strip(casts=True).intval() is not None or flag_expression(x_) is not None for x_ in sts):
                    cands.add(v)        # `flag = (a && !strcmp(..) && !strcmp(..))`, directly or through a one-line helper; `flag = 0;` before it
    if len(cands) > 1:
        # a named condition feeding the flag (`same_names = !strcmp(..) && !strcmp(..); if (open && same_names) flag = 1;`) is tested
        # on the way too: the flag is the one whose test comes last before the create call
        last = {}
        for n in g.nodes:
            if n.kind == "cond" and n.ast is not None and n.ast.path() in cands:
                last[n.ast.path()] = max(last.get(n.ast.path(), -1), n.ast.begin)
        best = sorted(last.items(), key=lambda kv: kv[1])
        if best:
            return best[-1][0]
    if len(cands) != 1:
        raise AnalysisError("%s: the flag that decides between the open file and a new one was not found exactly once (%s)" % (fn.name, sorted(cands)))
    return cands.pop()


def r4_new_file_on_name_change(repo=None):
    r = Rule("C04.R4", "a new file is entered whenever the derived (sub-directory, name) differs from the open file's")
    tu = cfront.lib(repo)
    fn = tu.fn("digital_rf_write_samples_to_file")
    g = _cfg.build_c(fn)
    F = fn.name
    FE = exists_flag(fn, g)
    ones = [n for n in g.nodes if n.kind == "stmt" and n.ast.kind == "BinaryOperator" and n.ast.opcode == "="
            and n.ast.children[0].path() == FE and n.ast.children[1].intval() == 1]
    expr_form = None
    if not ones:
        # the flag is assigned one boolean expression: decided on the formula instead of on the edges of the CFG
        expr_form = flag_is_one(fn, FE)
    cmp_nodes = {}
    # the names derived for this sample: the two buffers handed to digital_rf_get_subdir_file
    nm = fn.calls(("digital_rf_get_subdir_file",))
    if len(nm) != 1 or len(nm[0].args) < 4 or None in (alias_path(fn, nm[0].args[2]), alias_path(fn, nm[0].args[3])):
        raise AnalysisError("%s: the call of digital_rf_get_subdir_file that derives the names was not found exactly once" % F)
    d_subdir, d_base = alias_path(fn, nm[0].args[2]), alias_path(fn, nm[0].args[3])
    for n in g.nodes:
        if n.kind == "cond" and n.ast is not None:
            for c in n.ast.calls(("strcmp", "strncmp")):
                a = {alias_path(fn, c.args[0]), alias_path(fn, c.args[1])}
                if a == {OBJ + "->sub_directory", d_subdir}:
                    cmp_nodes["sub_directory"] = n
                if a == {OBJ + "->basename", d_base}:
                    cmp_nodes["basename"] = n
    if expr_form is None and any(w not in cmp_nodes for w in ("sub_directory", "basename")):
        # the comparisons are not conditions of their own (a named condition such as `same_names = !strcmp(..) && !strcmp(..)` that
        # the flag's test uses): decide on the formula of "flag is 1", which looks through named conditions
        expr_form = flag_is_one(fn, FE)
    if expr_form is not None:
        import itertools
        from .. import cbool
        f1, at = expr_form
        calls = {}
        all_cmps = [c_ for c_ in fn.calls(("strcmp", "strncmp"))]
        for c in all_cmps:
            a = {alias_path(fn, c.args[0]), alias_path(fn, c.args[1])}
            if a == {OBJ + "->sub_directory", d_subdir}:
                calls["sub_directory"] = c
            if a == {OBJ + "->basename", d_base}:
                calls["basename"] = c
        names = sorted(cbool.atoms(f1))
        for what in ("sub_directory", "basename"):
            if what not in calls:
                r.violation(LIB, F, "no strcmp of %s with the derived name" % what,
                            "the decision to continue in the open file ignores the derived %s: samples of a new period would be "
                            "appended to the old file" % what, line=at.line)
                continue
            an = cbool.atom_text(calls[what].strip(casts=True))
            if an not in names:
                # the comparison exists in the function but the flag's condition does not contain it
                raise AnalysisError("%s: the comparison of %s is not an atom of the flag's condition %s: not decided" % (F, what, cbool.show(f1)[:100]))
            if len(names) > 14:
                raise AnalysisError("%s: flag expression too large" % F)
            free = [n_ for n_ in names if n_ != an]
            sat = None
            for bits in itertools.product((False, True), repeat=len(free)):
                val = dict(zip(free, bits))
                val[an] = True          # strcmp(...) non-zero: the names differ
                if cbool.ev(f1, val):
                    sat = val
                    break
            if sat is not None:
                r.violation(LIB, F, "%s = 1 possible when %s differs" % (FE, what),
                            "the open file is kept although the derived %s differs (%s)" % (what, cbool.show(f1)[:120]), line=at.line)
            else:
                r.ok("%s:%s %s" % (LIB, calls[what].line, F), "%s is 1 only if strcmp(%s) reports equality (%s)" % (FE, what, cbool.show(f1)[:100]))
    for what in (("sub_directory", "basename") if expr_form is None else ()):
        if what not in cmp_nodes:
            r.violation(LIB, F, "no strcmp of %s with the derived name" % what,
                        "the decision to continue in the open file ignores the derived %s: samples of a new period would be "
                        "appended to the old file" % what, line=ones[0].line)
            continue
        c = cmp_nodes[what]
        # strcmp(...) true (non-zero) means different
        e = c.ast.strip()
        diff_lab = "T"
        if e.kind == "BinaryOperator" and e.opcode == "==" and e.children[1].intval() == 0:
            diff_lab = "F"

        def filt(a, b, lab, cid=c.id, dl=diff_lab):
            return not (a == cid and lab != dl)  # forbid the "equal" edge

        reach = g.reach([g.entry.id], edge_filter=lambda a, b, lab, cid=c.id, dl=diff_lab: not (a == cid and lab != dl))
        bad = [o for o in ones if o.id in reach and o.id in g.reach([b for b, l in g.succ[c.id] if l == diff_lab])]
        # o reachable although the comparison said "different" (or without passing the comparison's equal edge)
        reach2 = g.reach([g.entry.id], edge_filter=lambda a, b, lab, cid=c.id, dl=diff_lab: not (a == cid and lab != dl))
        if any(o.id in reach2 for o in ones):
            r.violation(LIB, F, "file_exists = 1 reachable when %s differs" % what,
                        "the open file is kept although the derived %s differs" % what, line=ones[0].line)
        else:
            r.ok("%s:%s %s" % (LIB, c.line, F), "file_exists = 1 only if strcmp(%s) reports equality" % what)
    # !file_exists reaches digital_rf_create_hdf5_file before any H5Dwrite
    tests = [n for n in g.nodes if n.kind == "cond" and n.ast is not None and n.ast.path() == FE]
    creates = [_node_of(g, c).id for c in fn.calls(("digital_rf_create_hdf5_file",))]
    writes = [_node_of(g, c) for c in fn.calls(("H5Dwrite",))]
    if not tests or not creates or not writes:
        raise AnalysisError("file_exists test / create call / H5Dwrite not found in %s" % F)
    for t in tests:
        starts = [b for b, l in g.succ[t.id] if l == "F"]
        bad = [w for w in writes if w.id in g.reach(starts, avoid=creates)]
        if bad:
            r.violation(LIB, F, "H5Dwrite reachable without digital_rf_create_hdf5_file when !file_exists",
                        "data of a new file period is written into the previously open file", line=bad[0].line)
        else:
            r.ok("%s:%s %s" % (LIB, t.line, F), "when the name changed, digital_rf_create_hdf5_file runs before any H5Dwrite")
    r.guard(3)
    return r


def r5_cadence_rule(repo=None):
    r = Rule("C04.R5", "both constructors enforce subdir >= 1, file >= 1, subdir*1000 % file == 0")
    tu = cfront.lib(repo)
    fn = tu.fn("digital_rf_create_write_hdf5")
    g = _cfg.build_c(fn)
    found = {"subdir": None, "file": None, "mod": None}
    for n in g.nodes:
        if n.kind != "cond" or n.ast is None:
            continue
        e = n.ast.strip()
        names = {x.ref for x in e.walk() if x.kind == "DeclRefExpr"}
        has_mod = any(x.kind == "BinaryOperator" and x.opcode == "%" for x in e.walk())
        if has_mod and {"subdir_cadence_secs", "file_cadence_millisecs"} <= names:
            found["mod"] = n
        elif names == {"subdir_cadence_secs"}:
            found["subdir"] = n
        elif names == {"file_cadence_millisecs"}:
            found["file"] = n
    success = [n for n in g.nodes if n.kind == "return" and n.ast.children and n.ast.children[0].path() == "hdf5_data_object"]
    if not success:
        raise AnalysisError("success return of digital_rf_create_write_hdf5 not found")
    for k, n in found.items():
        if n is None:
            r.violation(LIB, fn.name, "no %s cadence test" % k, "the constructor accepts an illegal cadence combination",
                        line=fn.line)
            continue
        ts = [b for b, l in g.succ[n.id] if l == "T"]
        treach = g.reach(ts)
        rejects = not any(s.id in treach for s in success)
        dominates = all(s.id not in g.reach([g.entry.id], avoid=[n.id]) for s in success)
        if rejects and dominates:
            r.ok("%s:%s %s `%s`" % (LIB, n.line, fn.name, n.label[:60]), "rejecting test on every path to the success return")
        else:
            r.violation(LIB, fn.name, n.label[:80], "cadence test does not reject or can be bypassed", line=n.line)
    m = pyfront.mod("digital_rf_hdf5", repo)
    q = "DigitalRFWriter.__init__"
    fv = m.flat(q)
    pf = fv.fn()
    pg = fv.cfg()
    env = pyutil.single_alias_env(pf)
    want = {"subdir": None, "file": None, "mod": None}
    for n in pg.nodes:
        if n.kind != "cond" or n.ast is None or isinstance(n.ast, (ast.For, ast.While)):
            continue
        e_ = pyutil.dealias(n.ast, env)
        src = ast.unparse(e_)
        names = pyfront.names_in(e_) | {a.attr for a in ast.walk(e_) if isinstance(a, ast.Attribute)}
        if any(isinstance(x, ast.Mod) for x in ast.walk(e_)) and {"subdir_cadence_secs", "file_cadence_millisecs"} <= names:
            want["mod"] = n
        elif "subdir_cadence_secs" in names and "file_cadence_millisecs" not in names and "< 1" in src:
            want["subdir"] = n
        elif "file_cadence_millisecs" in names and "subdir_cadence_secs" not in names and "< 1" in src:
            want["file"] = n
    ext = [n for n in pg.nodes if any(pyfront.call_name(c) == "_py_rf_write_hdf5.init" for c in pyfront.node_calls(n))]
    if not ext:
        raise AnalysisError("extension init call not found in DigitalRFWriter.__init__")
    for k, n in want.items():
        if n is None:
            r.violation(m.rel, q, "no %s cadence test" % k, "the Python constructor accepts an illegal cadence combination",
                        line=pf.lineno)
            continue
        ts = [b for b, l in pg.succ[n.id] if l == "T"]
        treach = pg.reach(ts, skip_labels=("exc",))
        raises = any(pg.nodes[i].kind == "raise" for i in treach) and not any(e.id in treach for e in ext)
        dominates = all(e.id not in pg.reach([pg.entry.id], avoid=[n.id]) for e in ext)
        if raises and dominates:
            r.ok("%s:%s %s `%s`" % (m.rel, n.line, q, n.label[:60]), "raises before the extension is called")
        else:
            r.violation(m.rel, q, n.label[:80], "cadence test does not raise or can be bypassed", line=n.line)
    r.note("known blind spot: a wrong constant inside a test (e.g. `subdir % file` without *1000) leaves the structure unchanged")
    r.guard(6)
    return r


def _show_lin(d):
    parts = []
    for k in sorted(d, key=str):
        v = d[k]
        if k == 1:
            parts.append("%+d" % v)
        else:
            parts.append(("+" if v > 0 else "-") + ("" if abs(v) == 1 else "%d*" % abs(v)) + str(k))
    return " ".join(parts).lstrip("+") or "0"


def r7_truncation_siblings(repo=None):
    """Contradiction rule: where a block is cut at a file boundary, the cut position is computed in two places (inside the loop
    over blocks, when another block follows, and after it, for the last block).  Both describe the same quantity, so the
    expressions that involve the boundary must be the same linear form."""
    r = Rule("C04.R7", "a block is cut at a file boundary by the same expression in the in-loop and the after-loop computation (sibling)")
    tu = cfront.lib(repo)
    fn = tu.fn("digital_rf_create_rf_data_index")
    loops = fn.find("ForStmt") + fn.find("WhileStmt")
    loops.sort(key=lambda n: n.begin)
    if len(loops) < 2:
        raise AnalysisError("%s: the two loops over the block description were not found" % fn.name)
    l1, l2 = loops[0], loops[1]
    st = [(p_, n, rhs, k) for p_, n, rhs, k in clib.stores(fn) if p_ and rhs is not None and k == "=" and "->" not in p_
          and "[" not in p_ and "*" not in p_]
    in_loop = {}
    after = {}
    for p_, n, rhs, k in st:
        if l1.begin <= n.begin <= l1.end:
            in_loop.setdefault(p_, []).append((n, rhs))
        elif l1.end < n.begin < l2.begin:
            after.setdefault(p_, []).append((n, rhs))
    variant = set(in_loop)            # assigned in the loop: not loop-invariant
    n_checked = 0
    for v in sorted(set(in_loop) & set(after)):
        def boundary_forms(items):
            out = {}
            def alts(e, depth=0):
                """linear forms `e` can stand for: both arms of a conditional expression; a local stored exactly once in the
                function (and not in the loop) is replaced by the alternatives of its value"""
                t = e.strip(casts=True)
                if t.kind == "ConditionalOperator":
                    return alts(t.children[1], depth) + alts(t.children[2], depth)
                lf0 = clib.linform(t)
                if lf0 is None:
                    return []
                outs = [dict(lf0)]
                if depth < 2:
                    for k in list(lf0):
                        if k == 1 or k in variant:
                            continue
                        defs = [rhs_ for p2, n2, rhs_, k2 in clib.stores(fn) if p2 == k]
                        if len(defs) == 1 and defs[0] is not None:
                            sub = alts(defs[0], depth + 1)
                            if sub:
                                new_ = []
                                for o in outs:
                                    for sb in sub:
                                        x = {kk: vv for kk, vv in o.items() if kk != k}
                                        for kk, vv in sb.items():
                                            x[kk] = x.get(kk, 0) + vv * o[k]
                                        new_.append({kk: vv for kk, vv in x.items() if vv != 0})
                                outs = new_
                return outs
            for n, rhs in [(n_, lf_) for n_, rhs_ in items for lf_ in alts(rhs_)]:
                lf = rhs
                scal = [k for k in lf if k != 1 and "[" not in k and "->" not in k and "*" not in k]
                inv = [k for k in scal if k not in variant]
                var_ = [k for k in scal if k in variant]
                if inv and var_ and len(scal) == len([k for k in lf if k != 1]):
                    out[tuple(sorted((str(k), c) for k, c in lf.items()))] = (n, lf)
            return out
        a, b = boundary_forms(in_loop[v]), boundary_forms(after[v])
        if not a and not b:
            continue
        n_checked += 1
        if set(a) == set(b):
            r.ok("%s:%s %s `%s`" % (LIB, list(a.values())[0][0].line, fn.name, v), "cut at the boundary by %s both inside and after "
                 "the loop" % " / ".join(_show_lin(x[1]) for x in a.values()))
        else:
            only_a = [a[k] for k in a if k not in b]
            only_b = [b[k] for k in b if k not in a]
            node = (only_a or only_b)[0][0]
            r.violation(LIB, fn.name, "%s: in-loop %s vs after-loop %s" % (v, [_show_lin(x[1]) for x in a.values()],
                        [_show_lin(x[1]) for x in b.values()]), "the position at which a block is cut at the file boundary is computed "
                        "differently for a block followed by another block and for the last block: one of the two puts a sample into "
                        "the wrong file (or drops it)", line=node.line)
    if n_checked < 2:
        raise AnalysisError("%s: %d boundary variables found, 2 (first and last index written) confirmed on the reference tree" % (
            fn.name, n_checked))
    r.guard(2)
    return r


def r8_remembered_subdir_is_current(repo=None, rid="C04.R8"):
    """The path of a new file is built from the remembered field sub_directory (C02.R1), not from the `subdir` just computed
    for the sample, so the field must equal `subdir` whenever a file is created: (a) in digital_rf_create_hdf5_file every path
    to H5Fcreate either calls the directory helper with `subdir` or has seen strcmp(sub_directory, subdir) == 0; (b) every
    success return of the helper has stored its `subdir` parameter into the field."""
    r = Rule(rid, "the remembered sub-directory is the one computed for this file whenever a file is created (must-pass)")
    tu = cfront.lib(repo)
    H = "digital_rf_create_new_directory"
    cf = tu.fn("digital_rf_create_hdf5_file")
    g = _cfg.build_c(cf)
    creates = [n for n in g.nodes if n.ast is not None and n.ast.calls(("H5Fcreate",))]
    if not creates:
        raise AnalysisError("%s: H5Fcreate not found" % cf.name)
    params = [p_.name for p_ in cf.children if p_.kind == "ParmVarDecl"]
    field = OBJ + "->sub_directory"
    cand = [p_ for p_ in params if p_ != OBJ]
    helper_calls = []
    sub_param = None
    for n in g.nodes:
        if n.ast is None:
            continue
        for c in n.ast.calls((H,)):
            if len(c.args) >= 2 and c.args[1].path() in cand:
                helper_calls.append(n)
                sub_param = c.args[1].path()
    if not helper_calls or sub_param is None:
        raise AnalysisError("%s: call of %s(obj, <sub-directory parameter>) not found" % (cf.name, H))
    eq_conds = []
    for n in g.nodes:
        if n.kind == "cond" and n.ast is not None:
            e = n.ast.strip(casts=True)
            neg = False
            while e.kind == "UnaryOperator" and e.opcode == "!":
                neg = not neg
                e = e.children[0].strip(casts=True)
            if e.kind == "CallExpr" and e.callee == "strcmp" and {e.args[0].path(), e.args[1].path()} == {field, sub_param}:
                eq_conds.append((n.id, "T" if neg else "F"))      # label of the edge on which the two names are equal
            elif e.kind == "BinaryOperator" and e.opcode in ("==", "!=") and e.children[1].intval() == 0:
                c = e.children[0].strip(casts=True)
                if c.kind == "CallExpr" and c.callee == "strcmp" and {c.args[0].path(), c.args[1].path()} == {field, sub_param}:
                    eq_conds.append((n.id, "T" if (e.opcode == "==") != neg else "F"))
    # a named condition: `flag = (field == NULL || check(..) || strcmp(field, subdir));  if (flag && helper(..))` - the edge on
    # which the flag's value implies strcmp(..) == 0 (truth table of the expression it was assigned, single definition)
    import itertools
    from .. import cbool
    for n in g.nodes:
        if n.kind != "cond" or n.ast is None or n.id in dict(eq_conds):
            continue
        e = n.ast.strip(casts=True)
        neg = False
        while e.kind == "UnaryOperator" and e.opcode == "!":
            neg = not neg
            e = e.children[0].strip(casts=True)
        v = e.path() if e.kind == "DeclRefExpr" else None
        if not v or v in params:
            continue
        ds = [rhs for p_, nd_, rhs, k_ in clib.stores(cf) if p_ == v and rhs is not None]
        ds += [d.children[-1] for d in cf.find("VarDecl") if d.name == v and d.children]
        if len(ds) != 1:
            continue
        cmps = [c for c in ds[0].calls(("strcmp",)) if {c.args[0].path(), c.args[1].path()} == {field, sub_param}]
        if len(cmps) != 1:
            continue
        f = cbool.truth(ds[0])
        an = cbool.atom_text(cmps[0].strip(casts=True))
        names = sorted(cbool.atoms(f))
        if an not in names or len(names) > 12:
            continue
        for t in (True, False):
            rows = [dict(zip(names, bits)) for bits in itertools.product((False, True), repeat=len(names))]
            rows = [val for val in rows if cbool.ev(f, val) == t]
            if rows and all(not val[an] for val in rows):
                eq_conds.append((n.id, "T" if (t != neg) else "F"))
    eq = dict(eq_conds)

    def filt(a, b, lab):
        return not (a in eq and lab == eq[a])
    reach = g.reach([g.entry.id], avoid=[n.id for n in helper_calls], edge_filter=filt)
    bad = [c for c in creates if c.id in reach]
    if bad:
        r.violation(LIB, cf.name, "H5Fcreate reachable without %s(.., %s) and without strcmp(sub_directory, %s) == 0" % (H, sub_param, sub_param),
                    "the file is created in (and its existence test done against) the sub-directory remembered from an earlier "
                    "file, not the one computed for this sample: after a sub-directory boundary files land in the wrong directory",
                    line=bad[0].line)
    else:
        r.ok("%s:%s %s" % (LIB, creates[0].line, cf.name), "every path to H5Fcreate has set or compared the remembered sub-directory "
             "with `%s`" % sub_param)
    hf = tu.fn(H)
    hg = _cfg.build_c(hf)
    hparams = [p_.name for p_ in hf.children if p_.kind == "ParmVarDecl"]
    if len(hparams) < 2:
        raise AnalysisError("%s: parameters not recognised" % H)
    sp = hparams[1]
    stores = [n for n in hg.nodes if n.ast is not None and any(c.args and c.args[0].path() == field and len(c.args) > 1
              and c.args[1].path() == sp for c in n.ast.calls(("strcpy", "strncpy", "snprintf")))]
    stores += [n for n in hg.nodes if n.kind == "stmt" and n.ast is not None and n.ast.kind == "BinaryOperator" and n.ast.opcode == "="
               and n.ast.children[0].path() == field and n.ast.children[1].calls(("strdup",))]
    # or through a temporary: strcpy(tmp, subdir) ... sub_directory = tmp (a strdup-like helper, inlined)
    for n in hg.nodes:
        if n.kind == "stmt" and n.ast is not None and n.ast.kind == "BinaryOperator" and n.ast.opcode == "=" \
                and n.ast.children[0].path() == field:
            src_ = n.ast.children[1].strip(casts=True).path()
            if src_ and "->" not in src_:
                fills = [x.id for x in hg.nodes if x.ast is not None and any(
                    c.args and c.args[0].path() == src_ and len(c.args) > 1 and c.args[1].path() == sp
                    for c in x.ast.calls(("strcpy", "strncpy", "snprintf")))]
                if fills and n.id not in hg.reach([hg.entry.id], avoid=fills):
                    stores.append(n)
    if not stores:
        raise AnalysisError("%s: store of `%s` into sub_directory not found" % (H, sp))
    okret = [n for n in hg.nodes if n.kind == "return" and n.ast.children and n.ast.children[0].intval() == 0]
    skip = [n for n in okret if n.id in hg.reach([hg.entry.id], avoid=[x.id for x in stores])]
    if skip:
        r.violation(LIB, H, "return(0) at line %s without storing `%s` into sub_directory" % (skip[0].line, sp),
                    "the helper reports success although the remembered sub-directory still names the previous one; the caller builds "
                    "the file path from it", line=skip[0].line)
    else:
        r.ok("%s:%s %s" % (LIB, stores[0].line, H), "every success return has stored `%s` into sub_directory" % sp)
    r.guard(2)
    return r


def r9_target_file_derived_from_the_sample(repo=None, rid="C04.R9"):
    """'The name of the file a sample goes to is a function of its index': in the per-file write step the sub-directory, the base
    name, the number of samples left in the file and the file's capacity are the outputs of digital_rf_get_subdir_file(sample).
    Who-may-write rule on those four locals: any other writer whose sources read a *mutable* field of the writer object (the
    remembered names, a cached window) makes the target a function of the writer's history - and the comparison of the derived
    names with the remembered ones (C04.R4) a comparison of the remembered names with themselves: after a refused or failed
    roll-over the next samples go into the wrong file, at the offsets of another."""
    r = Rule(rid, "the target file (names, samples left, capacity) of a write is written only by the naming function of the sample")
    tu = cfront.lib(repo)
    fn = tu.fn("digital_rf_write_samples_to_file")
    F = fn.name
    nm = fn.calls(("digital_rf_get_subdir_file",))
    if len(nm) != 1 or len(nm[0].args) < 6:
        raise AnalysisError("%s: the call of digital_rf_get_subdir_file that derives the names was not found exactly once" % F)
    outs = []
    for a in nm[0].args[2:6]:
        t = a.strip(casts=True)
        if t.kind == "UnaryOperator" and t.opcode == "&":
            t = t.children[0].strip(casts=True)
        p = t.path()
        if p is None or "->" in p:
            raise AnalysisError("%s: output argument `%s` of digital_rf_get_subdir_file is not a local" % (F, a.nsrc[:40]))
        outs.append(p)

    def state_reads(node):
        return sorted({x.name for x in node.walk() if x.kind == "MemberExpr" and x.children and x.children[0].path() == OBJ
                       and x.name not in clib.CONFIG_FIELDS})
    for p in outs:
        others = []
        for path, node, rhs, kind in clib.stores(fn):
            if path != p:
                continue
            if kind.startswith("call:"):
                if node is nm[0] or any(x is nm[0] for x in node.walk()):
                    continue
                srcs = list(node.args[1:])
            elif rhs is not None:
                srcs = [rhs]
            else:
                continue
            others.append((node, [f_ for s_ in srcs for f_ in state_reads(s_)]))
        bad = [(n_, fl) for n_, fl in others if fl]
        if bad:
            n_, fl = bad[0]
            r.violation(LIB, F, n_.nsrc[:80], "`%s` - an output of the naming function - is also written from the writer's remembered state "
                        "(%s): the file a sample goes to then depends on earlier calls (a window or name remembered before the roll-over "
                        "succeeded stays behind when it is refused), samples land in a file of another period at another offset" % (
                            p, ", ".join(fl)), line=n_.line)
        else:
            r.ok("%s:%s %s `%s`" % (LIB, nm[0].line, F, p), "written by digital_rf_get_subdir_file(sample)%s, never from mutable writer state" % (
                " and %d other statement(s) that read no writer state" % len(others) if others else ""))
    # the sample the names are derived from: the sample of the block description at samples_written - the same one the index rows
    # and the end-of-file cut are computed from - and not the writer's own cursor
    a1 = nm[0].args[1].strip(casts=True)
    p1 = a1.path()
    defs = []
    if p1 is not None and "->" not in p1:
        defs = [rhs for path, node, rhs, kind in clib.stores(fn) if path == p1 and rhs is not None]
        for d in fn.find("VarDecl"):
            if d.name == p1 and d.children:
                defs.append(d.children[-1])
    srcs = defs if defs else [a1]
    fl = sorted({f_ for s_ in srcs for f_ in state_reads(s_)})
    site = "%s:%s %s sample argument `%s`" % (LIB, nm[0].line, F, a1.nsrc[:40])
    idx_calls = fn.calls(("digital_rf_create_rf_data_index",))
    if fl:
        r.violation(LIB, F, "digital_rf_get_subdir_file(.., %s, ..)" % a1.nsrc[:40], "the sample that selects the file is taken from the writer's "
                    "remembered state (%s) and not from the block description of this call: when a gap of a block write straddles a "
                    "file boundary the names and the capacity are those of the file after the last sample stored, while the index "
                    "rows and the cut are computed for the next block's sample - samples land in a file whose window does not "
                    "contain them" % ", ".join(fl), line=nm[0].line)
    elif defs and all(any(x.kind == "CallExpr" and x.callee == "digital_rf_get_global_sample" for x in d_.walk()) for d_ in defs):
        same = [c for c in idx_calls if any(a_.strip(casts=True).path() == p1 for a_ in c.args)]
        if idx_calls and not same:
            raise AnalysisError("%s: the index builder is not handed the sample `%s` the names are derived from: not decided" % (F, p1))
        r.ok(site, "the sample of the block description at samples_written (digital_rf_get_global_sample), also handed to the index builder")
    else:
        raise AnalysisError("%s: where the sample argument `%s` of digital_rf_get_subdir_file comes from was not recognised" % (F, a1.nsrc[:40]))
    r.guard(5)
    return r


def rules(repo=None):
    from . import c01
    return [lambda: r1_integer_only(repo), lambda: r2_pure_function(repo), lambda: r3_floor_ceil_pairing(repo),
            lambda: r4_new_file_on_name_change(repo), lambda: r5_cadence_rule(repo),
            lambda: c01.r2_name_format_agreement(repo, rid="C04.R6"), lambda: r7_truncation_siblings(repo),
            lambda: r8_remembered_subdir_is_current(repo), lambda: r9_target_file_derived_from_the_sample(repo)]


EXPLANATION = (
    'R1: type-resolved backward slice of the outputs of the five naming/conversion functions contains no floating-typed '
    'node, <math.h> call or sample_rate read. R2: those functions read only parameters and the five configuration fields '
    "(stored once, in the constructor), store no state, read no clock. R3: the file's first sample and the next file's "
    'first sample are each obtained by the ceil helper from exactly the (second, millisecond) printed into the name / '
    'that plus one cadence; samples_left and max_samples are their differences. R4: file_exists=1 only if both strcmp()s '
    'report equality, and a changed name reaches digital_rf_create_hdf5_file before any H5Dwrite. R5: the three cadence '
    'tests reject in both constructors. R6: writer/reader/listing name formats agree (regular-language inclusion). R7: '
    'the two places that cut a block at a file boundary (inside and after the block loop of '
    'digital_rf_create_rf_data_index) use the same linear form (contradiction rule). R8: whenever a file is created the '
    'remembered sub_directory field (from which the path is built) has been set to or compared equal with the sub-'
    "directory computed for this sample. R2 also: the C library's calendar functions (gmtime, localtime, their _r "
    'variants, mktime ...) count as impure - they read the TZ database and gmtime / localtime share one static buffer '
    "between threads - and the Python functions that render a sub-directory name (strftime('%Y-%m-%dT%H-%M-%S')) do not "
    'call fromtimestamp / utcfromtimestamp / time.gmtime. R9: in the per-file write step the four outputs of the naming function '
    '(sub-directory, base name, samples left, capacity) have no other writer that reads mutable writer state (a remembered '
    'name or window). Does NOT decide that the floor/ceil arithmetic is right.')
TECHNIQUE = ('clang JSON AST; typed backward slice (integer-only); purity/effects of naming functions and their helpers; def-use pairing of floor/ceil helpers; CFG must-pass; linear-form sibling comparison')
ASSUMPTIONS = ["clang's expression types are the types the compiler uses", "gmtime is a pure function of its argument"]
FILES = [C_LIB, "python/digital_rf/digital_rf_hdf5.py", "python/digital_rf/list_drf.py"]
